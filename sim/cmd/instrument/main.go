// Command instrument rewrites the non-test sources of a Go package so that
// every source of scheduling nondeterminism goes through gorumsim/simrt. It
// writes the rewritten files to -out and an overlay JSON (for go build -overlay)
// mapping the original paths to the rewritten copies. The original tree is never
// modified.
//
// Transformations (mode L2):
//
//	T1 imports "sync", "sync/atomic", "math/rand" -> simulator shims
//	T2 go f(x)            -> simrt.Go(site, role, func(){ f(x') }) with arguments evaluated first
//	T3 statements that send, receive or close -> preceded by simrt.Yield(site)
//	T4 select             -> switch simrt.Select(site, hasDefault, cases...)
//	T5 range over a map   -> range over simrt.Keys(site, m) (scheduler-chosen order)
//
// Mode L1 redirects "sync" to the polling wrapper dsync (race detector runs) and applies
//
//	T6 every statement of every function body -> preceded by dsync.Stall(site)
//
// Stall sleeps on the fake clock (for a per-run subset of the sites, see dsync) and synchronises with
// nobody: it is the preemption the real program can suffer at that point, for as long as it takes.
package main

import (
	"bytes"
	"encoding/json"
	"flag"
	"fmt"
	"go/ast"
	"go/format"
	"go/importer"
	"go/parser"
	"go/token"
	"go/types"
	"io"
	"os"
	"os/exec"
	"path/filepath"
	"sort"
	"strconv"
	"strings"
)

var (
	srcDir  = flag.String("src", "", "package directory to instrument")
	outDir  = flag.String("out", "", "directory for rewritten files")
	mode    = flag.String("mode", "L2", "L2 (full) or L1 (sync->dsync only) or MAPS (T5 only)")
	ovOut   = flag.String("overlay", "", "overlay json file to write (merged if it exists)")
	goTool  = flag.String("go", "go", "go command used for 'go list -export'")
	skipPB  = flag.Bool("skip-pb", true, "skip *.pb.go files")
	verbose = flag.Bool("v", false, "verbose")
	rtPath  = flag.String("rt", "gorumsim/simrt", "import path of the runtime package that provides Go, Yield, Select, Keys")
)

const rt = "__simrt"

type counters struct{ Go, Yield, Select, MapRange, Imports, Stalls, Warnings int }

var stats counters
var stallSites []string // T6: every stall site, in file and source order
var warnings []string

func warn(format string, a ...any) {
	stats.Warnings++
	warnings = append(warnings, fmt.Sprintf(format, a...))
}

func main() {
	flag.Parse()
	if *srcDir == "" || *outDir == "" {
		fmt.Fprintln(os.Stderr, "usage: instrument -src dir -out dir [-mode L2|L1|MAPS] [-overlay file]")
		os.Exit(2)
	}
	abs, err := filepath.Abs(*srcDir)
	check(err)
	check(os.MkdirAll(*outDir, 0o755))
	outAbs, err := filepath.Abs(*outDir)
	check(err)

	fset := token.NewFileSet()
	entries, err := os.ReadDir(abs)
	check(err)
	var files []*ast.File
	var names []string
	for _, e := range entries {
		n := e.Name()
		if e.IsDir() || !strings.HasSuffix(n, ".go") || strings.HasSuffix(n, "_test.go") {
			continue
		}
		src, err := os.ReadFile(filepath.Join(abs, n))
		check(err)
		if !buildOK(src) {
			continue
		}
		f, err := parser.ParseFile(fset, filepath.Join(abs, n), src, parser.ParseComments|parser.SkipObjectResolution)
		check(err)
		files = append(files, f)
		names = append(names, n)
	}
	if len(files) == 0 {
		fatal("no go files in %s", abs)
	}

	var info *types.Info
	if *mode == "L2" || *mode == "MAPS" {
		info = typeCheck(fset, abs, files)
	}

	overlay := map[string]string{}
	for i, f := range files {
		n := names[i]
		if *skipPB && strings.HasSuffix(n, ".pb.go") {
			continue
		}
		changed := rewriteFile(fset, f, n, info)
		if !changed {
			continue
		}
		var buf bytes.Buffer
		// drop comments that are not doc/build comments to avoid misplacement:
		// go/printer handles moved nodes badly with free-floating comments.
		f.Comments = keepLeadingComments(f)
		if err := format.Node(&buf, fset, f); err != nil {
			fatal("format %s: %v", n, err)
		}
		out := filepath.Join(outAbs, n)
		check(os.WriteFile(out, buf.Bytes(), 0o644))
		overlay[filepath.Join(abs, n)] = out
	}

	if *ovOut != "" {
		merged := struct{ Replace map[string]string }{Replace: map[string]string{}}
		if b, err := os.ReadFile(*ovOut); err == nil {
			_ = json.Unmarshal(b, &merged)
			if merged.Replace == nil {
				merged.Replace = map[string]string{}
			}
		}
		for k, v := range overlay {
			merged.Replace[k] = v
		}
		b, _ := json.MarshalIndent(merged, "", " ")
		check(os.WriteFile(*ovOut, b, 0o644))
	}
	if *mode == "L1" {
		// the harness picks single stall sites from this list (targeted runs)
		check(os.WriteFile(filepath.Join(outAbs, "stallsites.txt"), []byte(strings.Join(stallSites, "\n")+"\n"), 0o644))
	}
	sort.Strings(warnings)
	for _, w := range warnings {
		fmt.Fprintln(os.Stderr, "instrument: warning:", w)
	}
	js, _ := json.Marshal(map[string]any{"files": len(overlay), "mode": *mode, "stats": stats})
	fmt.Println(string(js))
}

func buildOK(src []byte) bool {
	// ignore files excluded by a build constraint we never set (e.g. //go:build tools)
	for _, line := range strings.Split(string(src), "\n") {
		l := strings.TrimSpace(line)
		if strings.HasPrefix(l, "package ") {
			break
		}
		if strings.HasPrefix(l, "//go:build ") {
			expr := strings.TrimPrefix(l, "//go:build ")
			if strings.Contains(expr, "tools") || strings.Contains(expr, "ignore") {
				return false
			}
		}
	}
	return true
}

func keepLeadingComments(f *ast.File) []*ast.CommentGroup {
	var out []*ast.CommentGroup
	for _, cg := range f.Comments {
		if cg.End() < f.Package {
			out = append(out, cg)
		}
	}
	return out
}

func check(err error) {
	if err != nil {
		fatal("%v", err)
	}
}

func fatal(format string, a ...any) {
	fmt.Fprintf(os.Stderr, "instrument: "+format+"\n", a...)
	os.Exit(2)
}

// ------------------------------------------------------------ type checking

func typeCheck(fset *token.FileSet, dir string, files []*ast.File) *types.Info {
	cmd := exec.Command(*goTool, "list", "-export", "-deps", "-json=ImportPath,Export", ".")
	cmd.Dir = dir
	cmd.Stderr = os.Stderr
	out, err := cmd.Output()
	if err != nil {
		fatal("go list -export failed: %v", err)
	}
	exports := map[string]string{}
	dec := json.NewDecoder(bytes.NewReader(out))
	for {
		var p struct{ ImportPath, Export string }
		if err := dec.Decode(&p); err == io.EOF {
			break
		} else if err != nil {
			fatal("go list json: %v", err)
		}
		if p.Export != "" {
			exports[p.ImportPath] = p.Export
		}
	}
	imp := importer.ForCompiler(fset, "gc", func(path string) (io.ReadCloser, error) {
		e, ok := exports[path]
		if !ok {
			return nil, fmt.Errorf("no export data for %q", path)
		}
		return os.Open(e)
	})
	info := &types.Info{Types: map[ast.Expr]types.TypeAndValue{}}
	conf := types.Config{Importer: imp, Error: func(err error) {
		if *verbose {
			fmt.Fprintln(os.Stderr, "instrument: typecheck:", err)
		}
	}}
	_, _ = conf.Check(files[0].Name.Name, fset, files, info)
	return info
}

// ------------------------------------------------------------ rewriting

type rewriter struct {
	fset    *token.FileSet
	file    string
	info    *types.Info
	tmp     int
	usedRT  bool
	funcs   []string // stack of enclosing function names
	changed bool
}

func rewriteFile(fset *token.FileSet, f *ast.File, name string, info *types.Info) bool {
	r := &rewriter{fset: fset, file: name, info: info}
	// T1: imports
	for _, imp := range f.Imports {
		p, _ := strconv.Unquote(imp.Path.Value)
		var np, defName string
		switch {
		case p == "sync" && *mode == "L2":
			np, defName = "gorumsim/simrt/ssync", "sync"
		case p == "sync" && *mode == "L1":
			np, defName = "gorumsim/simrt/dsync", "sync"
		case p == "sync/atomic" && *mode == "L2":
			np, defName = "gorumsim/simrt/satomic", "atomic"
		case p == "math/rand" && *mode == "L2":
			np, defName = "gorumsim/simrt/srand", "rand"
		default:
			continue
		}
		imp.Path.Value = strconv.Quote(np)
		if imp.Name == nil {
			imp.Name = ast.NewIdent(defName)
		}
		stats.Imports++
		r.changed = true
	}
	if *mode == "L1" {
		if addStalls(fset, f, name) {
			addImport(f, "__dsync", "gorumsim/simrt/dsync")
			r.changed = true
		}
		return r.changed
	}
	for _, d := range f.Decls {
		fd, ok := d.(*ast.FuncDecl)
		if !ok {
			// function literals in package-level var initialisers
			r.funcs = []string{"init"}
			r.walk(d)
			continue
		}
		r.funcs = []string{fd.Name.Name}
		if fd.Body != nil {
			r.walk(fd.Body)
		}
	}
	if r.usedRT {
		addImport(f, rt, *rtPath)
		r.changed = true
	}
	return r.changed
}

// addStalls (T6) puts a call of dsync.Stall before every statement of every statement list
// (function bodies, nested blocks, case and comm clause bodies). The site string says whether the
// statement belongs to the body of a `go func(){...}()` literal ("@go"): those are preferred by
// the per-run choice of stall sites.
func addStalls(fset *token.FileSet, f *ast.File, file string) bool {
	n := 0
	var fn string
	// "@unl": the statement uses a field of the method's receiver and lies (lexically) after an explicit,
	// non-deferred Unlock / RUnlock of the same function - the classic window of a use after release.
	// A heuristic for *where to stall* only; it has no bearing on what counts as a race.
	var unlocks []token.Pos
	var recv string
	afterUnlock := func(st ast.Stmt) bool {
		if recv == "" {
			return false
		}
		after := false
		for _, u := range unlocks {
			if u < st.Pos() {
				after = true
			}
		}
		if !after {
			return false
		}
		uses := false
		ast.Inspect(st, func(m ast.Node) bool {
			if sel, ok := m.(*ast.SelectorExpr); ok {
				if id, ok := sel.X.(*ast.Ident); ok && id.Name == recv && sel.Sel.Name != "Lock" && sel.Sel.Name != "Unlock" && sel.Sel.Name != "RLock" && sel.Sel.Name != "RUnlock" {
					uses = true
				}
			}
			return !uses
		})
		return uses
	}
	var stallList func(list []ast.Stmt, inGo bool) []ast.Stmt
	var visit func(node ast.Node, inGo bool)
	stallList = func(list []ast.Stmt, inGo bool) []ast.Stmt {
		out := make([]ast.Stmt, 0, 2*len(list))
		for _, st := range list {
			visit(st, inGo)
			p := fset.Position(st.Pos())
			tag := ""
			if inGo {
				tag = "@go"
			} else if afterUnlock(st) {
				tag = "@unl"
			}
			site := fmt.Sprintf("%s:%d:%d(%s)%s", file, p.Line, p.Column, fn, tag)
			stallSites = append(stallSites, site)
			call := &ast.CallExpr{Fun: &ast.SelectorExpr{X: ast.NewIdent("__dsync"), Sel: ast.NewIdent("Stall")},
				Args: []ast.Expr{&ast.BasicLit{Kind: token.STRING, Value: strconv.Quote(site)}}}
			out = append(out, &ast.ExprStmt{X: call}, st)
			n++
		}
		return out
	}
	visit = func(node ast.Node, inGo bool) {
		if node == nil || isNilNode(node) {
			return
		}
		switch x := node.(type) {
		case *ast.BlockStmt:
			if x != nil {
				x.List = stallList(x.List, inGo)
			}
		case *ast.CaseClause:
			for _, e := range x.List {
				visit(e, inGo)
			}
			x.Body = stallList(x.Body, inGo)
		case *ast.CommClause:
			if x.Comm != nil {
				visit(x.Comm, inGo)
			}
			x.Body = stallList(x.Body, inGo)
		case *ast.SwitchStmt:
			visit(x.Init, inGo)
			visit(x.Tag, inGo)
			for _, c := range x.Body.List {
				visit(c, inGo)
			}
		case *ast.TypeSwitchStmt:
			visit(x.Init, inGo)
			visit(x.Assign, inGo)
			for _, c := range x.Body.List {
				visit(c, inGo)
			}
		case *ast.SelectStmt:
			for _, c := range x.Body.List {
				visit(c, inGo)
			}
		case *ast.GoStmt:
			if fl, ok := x.Call.Fun.(*ast.FuncLit); ok {
				visit(fl.Body, true)
				for _, a := range x.Call.Args {
					visit(a, inGo)
				}
				return
			}
			visit(x.Call, inGo)
		case *ast.FuncLit:
			visit(x.Body, inGo)
		case *ast.LabeledStmt:
			visit(x.Stmt, inGo)
		case *ast.IfStmt:
			visit(x.Init, inGo)
			visit(x.Cond, inGo)
			visit(x.Body, inGo)
			visit(x.Else, inGo)
		case *ast.ForStmt:
			visit(x.Init, inGo)
			visit(x.Cond, inGo)
			visit(x.Post, inGo)
			visit(x.Body, inGo)
		case *ast.RangeStmt:
			visit(x.X, inGo)
			visit(x.Body, inGo)
		default:
			// any other statement or expression: only function literals inside it have statement lists
			ast.Inspect(node, func(m ast.Node) bool {
				if m == node {
					return true
				}
				switch y := m.(type) {
				case *ast.FuncLit:
					visit(y.Body, inGo)
					return false
				}
				return true
			})
		}
	}
	for _, d := range f.Decls {
		switch x := d.(type) {
		case *ast.FuncDecl:
			fn = x.Name.Name
			if x.Body != nil {
				unlocks, recv = nil, ""
				if x.Recv != nil && len(x.Recv.List) == 1 && len(x.Recv.List[0].Names) == 1 {
					recv = x.Recv.List[0].Names[0].Name
				}
				ast.Inspect(x.Body, func(m ast.Node) bool {
					switch y := m.(type) {
					case *ast.DeferStmt:
						return false
					case *ast.CallExpr:
						if sel, ok := y.Fun.(*ast.SelectorExpr); ok && (sel.Sel.Name == "Unlock" || sel.Sel.Name == "RUnlock") && len(y.Args) == 0 {
							unlocks = append(unlocks, y.Pos())
						}
					}
					return true
				})
				visit(x.Body, false)
				unlocks, recv = nil, ""
			}
		default:
			fn = "init"
			visit(d, false)
		}
	}
	stats.Stalls += n
	return n > 0
}

func addImport(f *ast.File, name, path string) {
	spec := &ast.ImportSpec{Name: ast.NewIdent(name), Path: &ast.BasicLit{Kind: token.STRING, Value: strconv.Quote(path)}}
	for _, d := range f.Decls {
		if gd, ok := d.(*ast.GenDecl); ok && gd.Tok == token.IMPORT {
			gd.Specs = append(gd.Specs, spec)
			if !gd.Lparen.IsValid() {
				gd.Lparen = gd.Pos()
				gd.Rparen = gd.End()
			}
			f.Imports = append(f.Imports, spec)
			return
		}
	}
	gd := &ast.GenDecl{Tok: token.IMPORT, Specs: []ast.Spec{spec}}
	f.Decls = append([]ast.Decl{gd}, f.Decls...)
	f.Imports = append(f.Imports, spec)
}

func (r *rewriter) site(pos token.Pos) *ast.BasicLit {
	p := r.fset.Position(pos)
	fn := strings.Join(r.funcs, ".")
	return &ast.BasicLit{Kind: token.STRING, Value: strconv.Quote(fmt.Sprintf("%s:%d:%d(%s)", r.file, p.Line, p.Column, fn))}
}

func (r *rewriter) fresh(prefix string) *ast.Ident {
	r.tmp++
	return ast.NewIdent(fmt.Sprintf("__%s%d", prefix, r.tmp))
}

func (r *rewriter) rtCall(fn string, args ...ast.Expr) *ast.CallExpr {
	r.usedRT = true
	return &ast.CallExpr{Fun: &ast.SelectorExpr{X: ast.NewIdent(rt), Sel: ast.NewIdent(fn)}, Args: args}
}

// walk rewrites all statement lists below n, innermost first.
func (r *rewriter) walk(n ast.Node) {
	switch x := n.(type) {
	case nil:
		return
	case *ast.FuncLit:
		r.funcs = append(r.funcs, "func")
		r.walk(x.Body)
		r.funcs = r.funcs[:len(r.funcs)-1]
		return
	case *ast.BlockStmt:
		if x == nil {
			return
		}
		for _, s := range x.List {
			r.walk(s)
		}
		x.List = r.rewriteList(x.List)
		return
	case *ast.CaseClause:
		for _, e := range x.List {
			r.walk(e)
		}
		for _, s := range x.Body {
			r.walk(s)
		}
		x.Body = r.rewriteList(x.Body)
		return
	case *ast.CommClause:
		// the Comm statement itself is handled by the select rewrite; only walk
		// function literals inside it
		if x.Comm != nil {
			r.walkExprsOnly(x.Comm)
		}
		for _, s := range x.Body {
			r.walk(s)
		}
		x.Body = r.rewriteList(x.Body)
		return
	case *ast.SwitchStmt:
		r.walkSimple(x.Init)
		r.walkExprsOnly(x.Tag)
		for _, c := range x.Body.List {
			r.walk(c)
		}
		return
	case *ast.TypeSwitchStmt:
		r.walkSimple(x.Init)
		r.walkSimple(x.Assign)
		for _, c := range x.Body.List {
			r.walk(c)
		}
		return
	case *ast.SelectStmt:
		for _, c := range x.Body.List {
			r.walk(c)
		}
		return
	case *ast.IfStmt:
		r.walkSimple(x.Init)
		r.walkExprsOnly(x.Cond)
		r.walk(x.Body)
		if x.Else != nil {
			// else branch: block or if
			switch e := x.Else.(type) {
			case *ast.BlockStmt:
				r.walk(e)
			default:
				r.walk(e)
			}
		}
		return
	case *ast.ForStmt:
		r.walkSimple(x.Init)
		r.walkExprsOnly(x.Cond)
		r.walkSimple(x.Post)
		r.walk(x.Body)
		return
	case *ast.RangeStmt:
		r.walkExprsOnly(x.X)
		r.walk(x.Body)
		return
	case *ast.LabeledStmt:
		r.walk(x.Stmt)
		return
	case ast.Stmt:
		r.walkExprsOnly(x)
		return
	case ast.Decl:
		r.walkExprsOnly(x)
		return
	case ast.Expr:
		r.walkExprsOnly(x)
		return
	}
}

func (r *rewriter) walkSimple(s ast.Stmt) {
	if s == nil {
		return
	}
	r.walkExprsOnly(s)
}

// walkExprsOnly finds function literals inside a non-compound node and rewrites their bodies.
func (r *rewriter) walkExprsOnly(n ast.Node) {
	if n == nil || isNilNode(n) {
		return
	}
	ast.Inspect(n, func(m ast.Node) bool {
		if fl, ok := m.(*ast.FuncLit); ok {
			r.walk(fl)
			return false
		}
		return true
	})
}

func isNilNode(n ast.Node) bool {
	switch x := n.(type) {
	case ast.Expr:
		return x == nil
	case ast.Stmt:
		return x == nil
	}
	return false
}

// rewriteList applies T2..T5 to the statements of one list.
func (r *rewriter) rewriteList(list []ast.Stmt) []ast.Stmt {
	var out []ast.Stmt
	for _, s := range list {
		out = append(out, r.rewriteStmt(s)...)
	}
	return out
}

func (r *rewriter) rewriteStmt(s ast.Stmt) []ast.Stmt {
	var label *ast.Ident
	inner := s
	if ls, ok := s.(*ast.LabeledStmt); ok {
		label = ls.Label
		inner = ls.Stmt
	}
	relabel := func(st ast.Stmt) ast.Stmt {
		if label != nil {
			return &ast.LabeledStmt{Label: label, Stmt: st}
		}
		return st
	}
	switch x := inner.(type) {
	case *ast.GoStmt:
		stats.Go++
		return []ast.Stmt{relabel(r.rewriteGo(x))}
	case *ast.SelectStmt:
		if len(x.Body.List) == 0 {
			return []ast.Stmt{s}
		}
		stats.Select++
		return []ast.Stmt{r.rewriteSelect(x, label)}
	case *ast.RangeStmt:
		if r.isMap(x.X) {
			stats.MapRange++
			return []ast.Stmt{r.rewriteMapRange(x, label)}
		}
		if *mode == "MAPS" {
			return []ast.Stmt{s}
		}
		if r.isChan(x.X) {
			warn("%s: range over channel is not given per-iteration yields", r.fset.Position(x.Pos()))
			stats.Yield++
			return []ast.Stmt{&ast.ExprStmt{X: r.rtCall("Yield", r.site(x.Pos()))}, s}
		}
	}
	if *mode == "MAPS" {
		return []ast.Stmt{s}
	}
	if pos, ok := r.directChanOp(inner); ok {
		stats.Yield++
		return []ast.Stmt{&ast.ExprStmt{X: r.rtCall("Yield", r.site(pos))}, s}
	}
	return []ast.Stmt{s}
}

func (r *rewriter) isMap(e ast.Expr) bool {
	if r.info == nil {
		return false
	}
	tv, ok := r.info.Types[e]
	if !ok || tv.Type == nil {
		return false
	}
	_, isMap := tv.Type.Underlying().(*types.Map)
	return isMap
}

func (r *rewriter) isChan(e ast.Expr) bool {
	if r.info == nil {
		return false
	}
	tv, ok := r.info.Types[e]
	if !ok || tv.Type == nil {
		return false
	}
	_, is := tv.Type.Underlying().(*types.Chan)
	return is
}

// directChanOp reports whether the statement itself (not nested blocks or
// function literals) performs a channel send, receive or close.
func (r *rewriter) directChanOp(s ast.Stmt) (token.Pos, bool) {
	var parts []ast.Node
	switch x := s.(type) {
	case *ast.IfStmt:
		parts = []ast.Node{x.Init, x.Cond}
	case *ast.ForStmt:
		parts = []ast.Node{x.Init, x.Cond}
		if x.Post != nil {
			if _, ok := r.chanOpIn(x.Post); ok {
				warn("%s: channel operation in for-post statement gets no yield", r.fset.Position(x.Pos()))
			}
		}
	case *ast.SwitchStmt:
		parts = []ast.Node{x.Init, x.Tag}
	case *ast.TypeSwitchStmt:
		parts = []ast.Node{x.Init, x.Assign}
	case *ast.RangeStmt:
		parts = []ast.Node{x.X}
	case *ast.BlockStmt, *ast.SelectStmt, *ast.DeferStmt, *ast.GoStmt, *ast.LabeledStmt:
		return 0, false
	default:
		parts = []ast.Node{s}
	}
	for _, p := range parts {
		if p == nil || isNilNode(p) {
			continue
		}
		if pos, ok := r.chanOpIn(p); ok {
			return pos, true
		}
	}
	return 0, false
}

func (r *rewriter) chanOpIn(n ast.Node) (token.Pos, bool) {
	var pos token.Pos
	found := false
	ast.Inspect(n, func(m ast.Node) bool {
		if found {
			return false
		}
		switch y := m.(type) {
		case *ast.FuncLit:
			return false
		case *ast.SendStmt:
			pos, found = y.Pos(), true
		case *ast.UnaryExpr:
			if y.Op == token.ARROW {
				pos, found = y.Pos(), true
			}
		case *ast.CallExpr:
			if id, ok := y.Fun.(*ast.Ident); ok && id.Name == "close" && len(y.Args) == 1 {
				pos, found = y.Pos(), true
			}
		}
		return !found
	})
	return pos, found
}

// T2
func (r *rewriter) rewriteGo(g *ast.GoStmt) ast.Stmt {
	call := g.Call
	role := exprName(call.Fun)
	if role == "" {
		role = strings.Join(r.funcs, ".") + ".func"
	}
	roleLit := &ast.BasicLit{Kind: token.STRING, Value: strconv.Quote(role)}
	if fl, ok := call.Fun.(*ast.FuncLit); ok && len(call.Args) == 0 {
		return &ast.ExprStmt{X: r.rtCall("Go", r.site(g.Pos()), roleLit, fl)}
	}
	var stmts []ast.Stmt
	fn := r.fresh("f")
	stmts = append(stmts, define(fn, call.Fun))
	var args []ast.Expr
	for _, a := range call.Args {
		v := r.fresh("a")
		stmts = append(stmts, define(v, a))
		args = append(args, v)
	}
	inner := &ast.CallExpr{Fun: fn, Args: args, Ellipsis: call.Ellipsis}
	lit := &ast.FuncLit{Type: &ast.FuncType{Params: &ast.FieldList{}}, Body: &ast.BlockStmt{List: []ast.Stmt{&ast.ExprStmt{X: inner}}}}
	stmts = append(stmts, &ast.ExprStmt{X: r.rtCall("Go", r.site(g.Pos()), roleLit, lit)})
	return &ast.BlockStmt{List: stmts}
}

func exprName(e ast.Expr) string {
	switch x := e.(type) {
	case *ast.Ident:
		return x.Name
	case *ast.SelectorExpr:
		return x.Sel.Name
	case *ast.ParenExpr:
		return exprName(x.X)
	}
	return ""
}

func define(id *ast.Ident, e ast.Expr) ast.Stmt {
	return &ast.AssignStmt{Lhs: []ast.Expr{id}, Tok: token.DEFINE, Rhs: []ast.Expr{e}}
}

func unparen(e ast.Expr) ast.Expr {
	for {
		p, ok := e.(*ast.ParenExpr)
		if !ok {
			return e
		}
		e = p.X
	}
}

// T4
func (r *rewriter) rewriteSelect(sel *ast.SelectStmt, label *ast.Ident) ast.Stmt {
	var pre []ast.Stmt
	var slots []ast.Expr
	var clauses []ast.Stmt
	hasDefault := false
	idx := 0
	for _, c := range sel.Body.List {
		cc := c.(*ast.CommClause)
		if cc.Comm == nil {
			hasDefault = true
			clauses = append(clauses, &ast.CaseClause{List: []ast.Expr{intLit(-1)}, Body: cc.Body})
			continue
		}
		slot := r.fresh("s")
		var prologue []ast.Stmt
		switch cm := cc.Comm.(type) {
		case *ast.SendStmt:
			pre = append(pre, define(slot, r.rtCall("Send", cm.Chan, cm.Value)))
		case *ast.ExprStmt:
			u, ok := unparen(cm.X).(*ast.UnaryExpr)
			if !ok || u.Op != token.ARROW {
				fatal("%s: unsupported select clause", r.fset.Position(cm.Pos()))
			}
			pre = append(pre, define(slot, r.rtCall("Recv", u.X)))
		case *ast.AssignStmt:
			u, ok := unparen(cm.Rhs[0]).(*ast.UnaryExpr)
			if !ok || u.Op != token.ARROW || len(cm.Rhs) != 1 {
				fatal("%s: unsupported select clause", r.fset.Position(cm.Pos()))
			}
			pre = append(pre, define(slot, r.rtCall("Recv", u.X)))
			var lhs, rhs []ast.Expr
			fields := []string{"V", "OK"}
			for i, l := range cm.Lhs {
				if id, ok := l.(*ast.Ident); ok && id.Name == "_" {
					continue
				}
				lhs = append(lhs, l)
				rhs = append(rhs, &ast.SelectorExpr{X: slot, Sel: ast.NewIdent(fields[i])})
			}
			if len(lhs) > 0 {
				prologue = append(prologue, &ast.AssignStmt{Lhs: lhs, Tok: cm.Tok, Rhs: rhs})
			}
		default:
			fatal("%s: unsupported select clause %T", r.fset.Position(cc.Pos()), cc.Comm)
		}
		slots = append(slots, slot)
		body := append(prologue, cc.Body...)
		clauses = append(clauses, &ast.CaseClause{List: []ast.Expr{intLit(idx)}, Body: body})
		idx++
	}
	// a select whose clauses all terminate is a terminating statement; keep that
	// property for the switch by giving it a (never taken) panicking default
	clauses = append(clauses, &ast.CaseClause{Body: []ast.Stmt{&ast.ExprStmt{X: &ast.CallExpr{
		Fun: ast.NewIdent("panic"), Args: []ast.Expr{&ast.BasicLit{Kind: token.STRING, Value: strconv.Quote("simrt: impossible select index")}}}}}})
	args := []ast.Expr{r.site(sel.Pos()), ast.NewIdent(strconv.FormatBool(hasDefault))}
	args = append(args, slots...)
	var sw ast.Stmt = &ast.SwitchStmt{Tag: r.rtCall("Select", args...), Body: &ast.BlockStmt{List: clauses}}
	if label != nil {
		sw = &ast.LabeledStmt{Label: label, Stmt: sw}
	}
	return &ast.BlockStmt{List: append(pre, sw)}
}

func intLit(i int) ast.Expr {
	if i < 0 {
		return &ast.UnaryExpr{Op: token.SUB, X: &ast.BasicLit{Kind: token.INT, Value: strconv.Itoa(-i)}}
	}
	return &ast.BasicLit{Kind: token.INT, Value: strconv.Itoa(i)}
}

// T5
func (r *rewriter) rewriteMapRange(rs *ast.RangeStmt, label *ast.Ident) ast.Stmt {
	m := r.fresh("m")
	k := r.fresh("k")
	v := r.fresh("v")
	ok := r.fresh("ok")
	isBlank := func(e ast.Expr) bool {
		if e == nil {
			return true
		}
		id, is := e.(*ast.Ident)
		return is && id.Name == "_"
	}
	var body []ast.Stmt
	needV := !isBlank(rs.Value)
	lookupLhs := []ast.Expr{ast.NewIdent("_"), ok}
	if needV {
		lookupLhs[0] = v
	}
	body = append(body,
		&ast.AssignStmt{Lhs: lookupLhs, Tok: token.DEFINE, Rhs: []ast.Expr{&ast.IndexExpr{X: m, Index: k}}},
		&ast.IfStmt{Cond: &ast.UnaryExpr{Op: token.NOT, X: ok}, Body: &ast.BlockStmt{List: []ast.Stmt{&ast.BranchStmt{Tok: token.CONTINUE}}}},
	)
	var lhs, rhs []ast.Expr
	if !isBlank(rs.Key) {
		lhs = append(lhs, rs.Key)
		rhs = append(rhs, k)
	}
	if needV {
		lhs = append(lhs, rs.Value)
		rhs = append(rhs, v)
	}
	if len(lhs) > 0 {
		body = append(body, &ast.AssignStmt{Lhs: lhs, Tok: rs.Tok, Rhs: rhs})
	}
	body = append(body, rs.Body.List...)
	var loop ast.Stmt = &ast.RangeStmt{
		Key: ast.NewIdent("_"), Value: k, Tok: token.DEFINE,
		X:    r.rtCall("Keys", r.site(rs.Pos()), m),
		Body: &ast.BlockStmt{List: body},
	}
	if label != nil {
		loop = &ast.LabeledStmt{Label: label, Stmt: loop}
	}
	return &ast.BlockStmt{List: []ast.Stmt{define(m, rs.X), loop}}
}
