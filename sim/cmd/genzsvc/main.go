// Command genzsvc regenerates the full-matrix ZorumsService stubs with the
// protoc-gen-gorums plugin built from the working tree, without protoc: the
// CodeGeneratorRequest is built from the descriptor embedded in the committed
// dev/zorums.pb.go.
package main

import (
	"bytes"
	"flag"
	"fmt"
	"os"
	"os/exec"
	"path/filepath"
	"regexp"

	"github.com/relab/gorums/cmd/protoc-gen-gorums/dev"
	"google.golang.org/protobuf/proto"
	"google.golang.org/protobuf/reflect/protodesc"
	"google.golang.org/protobuf/reflect/protoreflect"
	"google.golang.org/protobuf/types/descriptorpb"
	"google.golang.org/protobuf/types/pluginpb"
)

func main() {
	plugin := flag.String("plugin", "", "path to protoc-gen-gorums binary")
	out := flag.String("out", "", "output directory")
	pkgPath := flag.String("pkg", "gorumsim/zsvc", "go import path of the generated package")
	pkgName := flag.String("name", "zsvc", "go package name")
	pbsrc := flag.String("pb", "", "path to dev/zorums.pb.go to copy")
	flag.Parse()
	if *plugin == "" || *out == "" || *pbsrc == "" {
		fmt.Fprintln(os.Stderr, "usage: genzsvc -plugin bin -out dir -pb file")
		os.Exit(2)
	}
	fd := dev.File_zorums_proto
	var files []*descriptorpb.FileDescriptorProto
	seen := map[string]bool{}
	var walk func(f protoreflect.FileDescriptor)
	walk = func(f protoreflect.FileDescriptor) {
		if seen[f.Path()] {
			return
		}
		seen[f.Path()] = true
		imps := f.Imports()
		for i := 0; i < imps.Len(); i++ {
			walk(imps.Get(i).FileDescriptor)
		}
		files = append(files, protodesc.ToFileDescriptorProto(f))
	}
	walk(fd)
	param := fmt.Sprintf("paths=source_relative,M%s=%s;%s", fd.Path(), *pkgPath, *pkgName)
	req := &pluginpb.CodeGeneratorRequest{
		FileToGenerate:  []string{fd.Path()},
		Parameter:       proto.String(param),
		ProtoFile:       files,
		CompilerVersion: &pluginpb.Version{Major: proto.Int32(4), Minor: proto.Int32(25), Patch: proto.Int32(3)},
	}
	in, err := proto.Marshal(req)
	if err != nil {
		fail(2, "marshal request: %v", err)
	}
	cmd := exec.Command(*plugin)
	cmd.Stdin = bytes.NewReader(in)
	var stdout, stderr bytes.Buffer
	cmd.Stdout, cmd.Stderr = &stdout, &stderr
	if err := cmd.Run(); err != nil {
		fail(3, "plugin failed: %v\n%s", err, stderr.String())
	}
	var resp pluginpb.CodeGeneratorResponse
	if err := proto.Unmarshal(stdout.Bytes(), &resp); err != nil {
		fail(3, "plugin response: %v", err)
	}
	if resp.Error != nil {
		fail(3, "plugin reported: %s", resp.GetError())
	}
	if err := os.MkdirAll(*out, 0o755); err != nil {
		fail(2, "%v", err)
	}
	if len(resp.File) == 0 {
		fail(3, "plugin emitted no files")
	}
	for _, f := range resp.File {
		p := filepath.Join(*out, filepath.Base(f.GetName()))
		if err := os.WriteFile(p, []byte(f.GetContent()), 0o644); err != nil {
			fail(2, "%v", err)
		}
		fmt.Println("wrote", p)
	}
	src, err := os.ReadFile(*pbsrc)
	if err != nil {
		fail(2, "%v", err)
	}
	re := regexp.MustCompile(`(?m)^package \w+$`)
	src = re.ReplaceAll(src, []byte("package "+*pkgName))
	if err := os.WriteFile(filepath.Join(*out, "zorums.pb.go"), src, 0o644); err != nil {
		fail(2, "%v", err)
	}
}

func fail(code int, format string, a ...any) {
	fmt.Fprintf(os.Stderr, "genzsvc: "+format+"\n", a...)
	os.Exit(code)
}
