//go:build go1.21

// Package grpcrand (simulation replacement): gRPC's only PRNG use on the paths
// exercised here is connection back-off jitter and balancer start indices.
// The process-global math/rand source cannot be seeded, so under simulation
// every function returns the midpoint / zero: back-off delays become exactly
// their nominal value and runs are reproducible.
package grpcrand

func Int() int                 { return 0 }
func Int63n(n int64) int64     { return 0 }
func Intn(n int) int           { return 0 }
func Int31n(n int32) int32     { return 0 }
func Float64() float64         { return 0.5 }
func Uint64() uint64           { return 0 }
func Uint32() uint32           { return 0 }
func ExpFloat64() float64      { return 1 }

var Shuffle = func(n int, f func(int, int)) {}
