// Package simnet is an in-memory, scheduler-driven replacement for TCP.
//
// Nothing moves by itself: a Write only appends to the in-flight queue of a
// direction, a Dial only registers a pending dial. The simulation driver asks
// the Net for its enabled actions (complete/refuse a dial, deliver in-flight
// bytes of a direction) and executes the one its chooser picks. All blocking
// is on channels and timers, so blocked goroutines are durably blocked in the
// sense of testing/synctest.
package simnet

import (
	"context"
	"errors"
	"fmt"
	"io"
	"net"
	"os"
	"sort"
	"strings"
	"sync"
	"syscall"
	"time"
)

// Net is one simulated network.
type Net struct {
	mu        sync.Mutex
	listeners map[string]*Listener
	conns     []*Conn
	dials     []*pendingDial
	nextDial  map[string]int // per (client, address): dial ordinals must not depend on the arrival order of unrelated dials
	// Mode per address when no listener is up: refuse (default) or blackhole.
	blackhole map[string]bool
	// partition[client|addr] = true: connections stalled, dials black-holed
	partitioned map[string]bool
	// Cap is the in-flight capacity per direction in bytes (0 = unbounded).
	Cap int
	// AutoConnect: a dial to a listening, reachable address completes at once instead of
	// waiting for the scheduler (used in fair phases, where the network is assumed to be
	// fast relative to connect timeouts).
	autoConnect bool
	nextConn    map[string]int
	// Log receives one line per network event (may be nil).
	Log   func(kind string, attrs ...any)
	Stats Stats
}

// Stats counts what actually happened.
type Stats struct {
	Dials, Connects, Refused, Blackholed, DialTimeouts int
	Deliveries, PartialDeliveries, BytesDelivered      int
	Resets, Closes, Stalls                             int
}

// New returns an empty network.
func New() *Net {
	return &Net{listeners: map[string]*Listener{}, blackhole: map[string]bool{}, partitioned: map[string]bool{}}
}

func (n *Net) log(kind string, attrs ...any) {
	if n.Log != nil {
		n.Log(kind, attrs...)
	}
}

// Addr is a simulated address.
type Addr struct{ S string }

func (a Addr) Network() string { return "tcp" }
func (a Addr) String() string  { return a.S }

// ---------------------------------------------------------------- listener

// Listener implements net.Listener.
type Listener struct {
	n      *Net
	addr   string
	accept chan *endpoint
	closed chan struct{}
	once   sync.Once
}

// Listen starts listening on addr.
func (n *Net) Listen(addr string) (*Listener, error) {
	n.mu.Lock()
	defer n.mu.Unlock()
	if _, ok := n.listeners[addr]; ok {
		return nil, fmt.Errorf("listen %s: %w", addr, syscall.EADDRINUSE)
	}
	l := &Listener{n: n, addr: addr, accept: make(chan *endpoint, 1024), closed: make(chan struct{})}
	n.listeners[addr] = l
	return l, nil
}

func (l *Listener) Accept() (net.Conn, error) {
	select {
	case ep := <-l.accept:
		return ep, nil
	case <-l.closed:
		return nil, net.ErrClosed
	}
}

func (l *Listener) Close() error {
	l.once.Do(func() {
		l.n.mu.Lock()
		if l.n.listeners[l.addr] == l {
			delete(l.n.listeners, l.addr)
		}
		l.n.mu.Unlock()
		close(l.closed)
	})
	return nil
}

func (l *Listener) Addr() net.Addr { return Addr{l.addr} }

// ---------------------------------------------------------------- dialing

type dialResult struct {
	ep  *endpoint
	err error
}

type pendingDial struct {
	id     int
	client string
	addr   string
	res    chan dialResult
	done   bool
}

// Dialer returns a dial function for gRPC's WithContextDialer; client names the dialling process.
func (n *Net) Dialer(client string) func(ctx context.Context, addr string) (net.Conn, error) {
	return func(ctx context.Context, addr string) (net.Conn, error) {
		n.mu.Lock()
		if n.nextDial == nil {
			n.nextDial = map[string]int{}
		}
		n.nextDial[client+">"+addr]++
		pd := &pendingDial{id: n.nextDial[client+">"+addr], client: client, addr: addr, res: make(chan dialResult, 1)}
		n.dials = append(n.dials, pd)
		n.Stats.Dials++
		_, up := n.listeners[addr]
		auto := n.autoConnect && up && !n.partitioned[client+"|"+addr]
		n.mu.Unlock()
		n.log("dial", "client", client, "addr", addr, "id", pd.id)
		if auto {
			n.resolveDial(pd)
		}
		select {
		case r := <-pd.res:
			return r.ep, r.err
		case <-ctx.Done():
			n.mu.Lock()
			if !pd.done {
				pd.done = true
				n.Stats.DialTimeouts++
				n.mu.Unlock()
				n.log("dial-abandoned", "client", pd.client, "addr", pd.addr, "id", pd.id)
				return nil, ctx.Err()
			}
			n.mu.Unlock()
			// resolved concurrently
			r := <-pd.res
			if r.ep != nil {
				r.ep.Close()
			}
			return nil, ctx.Err()
		}
	}
}

// ---------------------------------------------------------------- connections

// Conn is one simulated TCP connection.
type Conn struct {
	n      *Net
	ID     int
	Key    string // deterministic name: client>addr#ordinal
	Client string
	Server string // address
	c2s    *dir
	s2c    *dir
	cep    *endpoint
	sep    *endpoint
	dead   bool // both endpoints closed or reset
}

func (c *Conn) Name() string { return c.Key }

type dir struct {
	name      string
	inflight  []byte
	fin       bool // FIN queued behind inflight
	delivered []byte
	finSeen   bool // FIN delivered to reader
	reset     bool
	readerGone bool
	stalled   bool
	rdNotify  chan struct{}
	wrNotify  chan struct{}
	deliveredTotal int
}

func newDir(name string) *dir {
	return &dir{name: name, rdNotify: make(chan struct{}, 1), wrNotify: make(chan struct{}, 1)}
}

func notify(ch chan struct{}) {
	select {
	case ch <- struct{}{}:
	default:
	}
}

type endpoint struct {
	conn     *Conn
	rd, wr   *dir
	local    Addr
	remote   Addr
	closed   bool
	closeCh  chan struct{}
	rdl, wdl time.Time
	dlCh     chan struct{} // closed and replaced whenever a deadline changes
}

var errTimeout = os.ErrDeadlineExceeded

func (e *endpoint) Read(b []byte) (int, error) {
	n := e.conn.n
	for {
		n.mu.Lock()
		if e.closed {
			n.mu.Unlock()
			return 0, net.ErrClosed
		}
		if e.rd.reset {
			n.mu.Unlock()
			return 0, &net.OpError{Op: "read", Net: "tcp", Err: syscall.ECONNRESET}
		}
		if len(e.rd.delivered) > 0 {
			k := copy(b, e.rd.delivered)
			e.rd.delivered = e.rd.delivered[k:]
			n.mu.Unlock()
			return k, nil
		}
		if e.rd.finSeen {
			n.mu.Unlock()
			return 0, io.EOF
		}
		dl := e.rdl
		dlCh := e.dlCh
		n.mu.Unlock()
		var timer *time.Timer
		var tc <-chan time.Time
		if !dl.IsZero() {
			d := time.Until(dl)
			if d <= 0 {
				return 0, &net.OpError{Op: "read", Net: "tcp", Err: errTimeout}
			}
			timer = time.NewTimer(d)
			tc = timer.C
		}
		select {
		case <-e.rd.rdNotify:
		case <-e.closeCh:
		case <-dlCh:
		case <-tc:
		}
		if timer != nil {
			timer.Stop()
		}
	}
}

func (e *endpoint) Write(b []byte) (int, error) {
	n := e.conn.n
	written := 0
	for {
		n.mu.Lock()
		if e.closed {
			n.mu.Unlock()
			return written, net.ErrClosed
		}
		if e.wr.reset {
			n.mu.Unlock()
			return written, &net.OpError{Op: "write", Net: "tcp", Err: syscall.ECONNRESET}
		}
		if e.wr.readerGone {
			// peer closed: the bytes vanish (a real peer would answer with RST later)
			n.mu.Unlock()
			return len(b), nil
		}
		room := len(b) - written
		if n.Cap > 0 {
			free := n.Cap - len(e.wr.inflight)
			if free < room {
				room = free
			}
		}
		if room > 0 {
			e.wr.inflight = append(e.wr.inflight, b[written:written+room]...)
			written += room
		}
		if written == len(b) {
			n.mu.Unlock()
			return written, nil
		}
		dl := e.wdl
		dlCh := e.dlCh
		n.mu.Unlock()
		var timer *time.Timer
		var tc <-chan time.Time
		if !dl.IsZero() {
			d := time.Until(dl)
			if d <= 0 {
				return written, &net.OpError{Op: "write", Net: "tcp", Err: errTimeout}
			}
			timer = time.NewTimer(d)
			tc = timer.C
		}
		select {
		case <-e.wr.wrNotify:
		case <-e.closeCh:
		case <-dlCh:
		case <-tc:
		}
		if timer != nil {
			timer.Stop()
		}
	}
}

func (e *endpoint) Close() error {
	n := e.conn.n
	n.mu.Lock()
	if e.closed {
		n.mu.Unlock()
		return nil
	}
	e.closed = true
	close(e.closeCh)
	e.wr.fin = true
	e.rd.readerGone = true
	e.rd.inflight = nil
	e.rd.delivered = nil
	n.Stats.Closes++
	notify(e.rd.wrNotify) // peer writer blocked on capacity
	n.mu.Unlock()
	n.log("close", "conn", e.conn.Key, "side", e.local.S)
	return nil
}

func (e *endpoint) LocalAddr() net.Addr  { return e.local }
func (e *endpoint) RemoteAddr() net.Addr { return e.remote }

func (e *endpoint) setDL(r, w *time.Time) {
	n := e.conn.n
	n.mu.Lock()
	if r != nil {
		e.rdl = *r
	}
	if w != nil {
		e.wdl = *w
	}
	old := e.dlCh
	e.dlCh = make(chan struct{})
	n.mu.Unlock()
	close(old)
}

func (e *endpoint) SetDeadline(t time.Time) error      { e.setDL(&t, &t); return nil }
func (e *endpoint) SetReadDeadline(t time.Time) error  { e.setDL(&t, nil); return nil }
func (e *endpoint) SetWriteDeadline(t time.Time) error { e.setDL(nil, &t); return nil }

// ---------------------------------------------------------------- driver API

// Action is one enabled network action.
type Action struct {
	Key string
	// Kind: "connect", "deliver"
	Kind string
	// Run executes the action; for a delivery n > 0 delivers only a prefix of n bytes.
	Run func(n int)
	// Bytes in flight (deliver)
	Bytes int
}

// Actions returns the currently enabled network actions in canonical order.
func (n *Net) Actions() []Action {
	n.mu.Lock()
	defer n.mu.Unlock()
	var out []Action
	for _, pd := range n.dials {
		if pd.done {
			continue
		}
		if n.partitioned[pd.client+"|"+pd.addr] {
			continue // black-holed while partitioned
		}
		if _, up := n.listeners[pd.addr]; !up && n.blackhole[pd.addr] {
			continue
		}
		pd := pd
		out = append(out, Action{Key: fmt.Sprintf("net:connect:%s>%s#%d", pd.client, pd.addr, pd.id), Kind: "connect", Run: func(int) { n.resolveDial(pd) }})
	}
	for _, c := range n.conns {
		if c.dead {
			continue
		}
		for _, d := range []*dir{c.c2s, c.s2c} {
			if d.stalled || d.reset {
				continue
			}
			if len(d.inflight) == 0 && !(d.fin && !d.finSeen) {
				continue
			}
			d := d
			c := c
			out = append(out, Action{Key: fmt.Sprintf("net:deliver:%s:%s", c.Key, d.name), Kind: "deliver", Bytes: len(d.inflight), Run: func(k int) { n.deliver(c, d, k) }})
		}
	}
	// compact finished dials
	live := n.dials[:0]
	for _, pd := range n.dials {
		if !pd.done {
			live = append(live, pd)
		}
	}
	n.dials = live
	sort.Slice(out, func(i, j int) bool { return out[i].Key < out[j].Key })
	return out
}

func (n *Net) resolveDial(pd *pendingDial) {
	n.mu.Lock()
	if pd.done {
		n.mu.Unlock()
		return
	}
	pd.done = true
	l, up := n.listeners[pd.addr]
	if !up {
		n.Stats.Refused++
		n.mu.Unlock()
		n.log("refused", "client", pd.client, "id", pd.id, "addr", pd.addr)
		pd.res <- dialResult{err: &net.OpError{Op: "dial", Net: "tcp", Addr: Addr{pd.addr}, Err: syscall.ECONNREFUSED}}
		return
	}
	if n.nextConn == nil {
		n.nextConn = map[string]int{}
	}
	n.nextConn[pd.client+">"+pd.addr]++
	c := &Conn{n: n, ID: len(n.conns) + 1, Client: pd.client, Server: pd.addr}
	c.Key = fmt.Sprintf("%s>%s#%d", pd.client, pd.addr, n.nextConn[pd.client+">"+pd.addr])
	c.c2s = newDir("c2s")
	c.s2c = newDir("s2c")
	cl := Addr{fmt.Sprintf("%s:%d.%s", pd.client, 40000+n.nextConn[pd.client+">"+pd.addr], pd.addr[strings.LastIndexByte(pd.addr, ':')+1:])}
	c.cep = &endpoint{conn: c, rd: c.s2c, wr: c.c2s, local: cl, remote: Addr{pd.addr}, closeCh: make(chan struct{}), dlCh: make(chan struct{})}
	c.sep = &endpoint{conn: c, rd: c.c2s, wr: c.s2c, local: Addr{pd.addr}, remote: cl, closeCh: make(chan struct{}), dlCh: make(chan struct{})}
	n.conns = append(n.conns, c)
	n.Stats.Connects++
	n.mu.Unlock()
	n.log("connect", "id", pd.id, "conn", c.Key)
	select {
	case l.accept <- c.sep:
	default:
		panic("simnet: accept queue overflow")
	}
	pd.res <- dialResult{ep: c.cep}
}

func (n *Net) deliver(c *Conn, d *dir, prefix int) {
	n.mu.Lock()
	k := len(d.inflight)
	if prefix > 0 && prefix < k {
		k = prefix
		n.Stats.PartialDeliveries++
	}
	if !d.readerGone {
		d.delivered = append(d.delivered, d.inflight[:k]...)
	}
	d.inflight = d.inflight[k:]
	if len(d.inflight) == 0 {
		d.inflight = nil
		if d.fin {
			d.finSeen = true
		}
	}
	d.deliveredTotal += k
	n.Stats.Deliveries++
	n.Stats.BytesDelivered += k
	notify(d.rdNotify)
	notify(d.wrNotify)
	n.checkDead(c)
	n.mu.Unlock()
	n.log("deliver", "conn", c.Key, "dir", d.name, "n", k, "fin", d.finSeen)
}

func (n *Net) checkDead(c *Conn) {
	if c.cep.closed && c.sep.closed {
		c.dead = true
	}
	if c.c2s.reset && c.s2c.reset {
		c.dead = true
	}
}

// Conns returns the live connections.
func (n *Net) Conns() []*Conn {
	n.mu.Lock()
	defer n.mu.Unlock()
	var out []*Conn
	for _, c := range n.conns {
		if !c.dead {
			out = append(out, c)
		}
	}
	return out
}

// AllConns returns every connection ever made.
func (n *Net) AllConns() []*Conn {
	n.mu.Lock()
	defer n.mu.Unlock()
	return append([]*Conn(nil), n.conns...)
}

// ClientClosed reports whether the client endpoint of c was closed or reset.
func (c *Conn) ClientClosed() bool {
	c.n.mu.Lock()
	defer c.n.mu.Unlock()
	return c.cep.closed || c.c2s.reset
}

// InFlight reports bytes in flight in each direction.
func (c *Conn) InFlight() (c2s, s2c int) {
	c.n.mu.Lock()
	defer c.n.mu.Unlock()
	return len(c.c2s.inflight), len(c.s2c.inflight)
}

// Undelivered reports bytes delivered to the reader's buffer but not read yet plus bytes in flight, per direction.
func (c *Conn) Pending() (c2s, s2c int) {
	c.n.mu.Lock()
	defer c.n.mu.Unlock()
	return len(c.c2s.inflight) + len(c.c2s.delivered), len(c.s2c.inflight) + len(c.s2c.delivered)
}

// Reset kills a connection: both directions fail with ECONNRESET, in-flight data is lost.
func (n *Net) Reset(c *Conn) {
	n.mu.Lock()
	for _, d := range []*dir{c.c2s, c.s2c} {
		d.reset = true
		d.inflight = nil
		notify(d.rdNotify)
		notify(d.wrNotify)
	}
	c.dead = true
	n.Stats.Resets++
	n.mu.Unlock()
	n.log("reset", "conn", c.Key)
}

// Stall makes a direction ("c2s" or "s2c") undeliverable until Unstall.
func (n *Net) Stall(c *Conn, dirName string, on bool) {
	n.mu.Lock()
	d := c.c2s
	if dirName == "s2c" {
		d = c.s2c
	}
	if d.stalled != on {
		d.stalled = on
		if on {
			n.Stats.Stalls++
		}
	}
	n.mu.Unlock()
	n.log("stall", "conn", c.Key, "dir", dirName, "on", on)
}

// Partition cuts client from addr: existing connections stall, dials hang.
func (n *Net) Partition(client, addr string, on bool) {
	n.mu.Lock()
	if on {
		n.partitioned[client+"|"+addr] = true
	} else {
		delete(n.partitioned, client+"|"+addr)
	}
	for _, c := range n.conns {
		if c.Client == client && c.Server == addr && !c.dead {
			c.c2s.stalled = on
			c.s2c.stalled = on
		}
	}
	n.mu.Unlock()
	n.log("partition", "client", client, "addr", addr, "on", on)
}

// HealAll removes all stalls and partitions.
func (n *Net) HealAll() {
	n.mu.Lock()
	n.partitioned = map[string]bool{}
	for _, c := range n.conns {
		c.c2s.stalled = false
		c.s2c.stalled = false
	}
	n.mu.Unlock()
	n.log("heal-all")
}

// SetBlackhole selects whether dials to addr hang (true) or are refused (false) while nothing listens there.
func (n *Net) SetBlackhole(addr string, on bool) {
	n.mu.Lock()
	n.blackhole[addr] = on
	n.mu.Unlock()
}

// ResetAllOf resets every live connection to addr (server crash).
func (n *Net) ResetAllOf(addr string) int {
	k := 0
	for _, c := range n.Conns() {
		if c.Server == addr {
			n.Reset(c)
			k++
		}
	}
	return k
}

// SetAutoConnect switches immediate completion of dials on or off.
func (n *Net) SetAutoConnect(on bool) {
	n.mu.Lock()
	n.autoConnect = on
	n.mu.Unlock()
}

// Snapshot returns a copy of the statistics.
func (n *Net) Snapshot() Stats {
	n.mu.Lock()
	defer n.mu.Unlock()
	return n.Stats
}

// PendingDials returns the number of unresolved dials of a client.
func (n *Net) PendingDials(client string) int {
	n.mu.Lock()
	defer n.mu.Unlock()
	k := 0
	for _, pd := range n.dials {
		if !pd.done && pd.client == client {
			k++
		}
	}
	return k
}

// Listening reports whether something listens on addr.
func (n *Net) Listening(addr string) bool {
	n.mu.Lock()
	defer n.mu.Unlock()
	_, ok := n.listeners[addr]
	return ok
}

// IsTimeout helps tests.
func IsTimeout(err error) bool { return errors.Is(err, os.ErrDeadlineExceeded) }
