// Package dsync replaces package sync inside the gorums package in L1 mode
// (race detector). It wraps the real primitives and only changes how a
// goroutine waits for a lock: instead of blocking on the runtime semaphore
// (which testing/synctest does not regard as a durable block) it polls with
// TryLock and sleeps on the fake clock in between. A failed TryLock creates no
// happens-before edge; a successful one creates exactly the edge Lock would.
package dsync

import (
	"gorumsim/simrt"
	"sync"
	"sync/atomic"
	"time"
)

type atomicPointer = atomic.Pointer[StallConfig]

type Locker = sync.Locker
// Pool is sync.Pool with deterministic (LIFO) reuse, partitioned by run: a worker process executes
// many runs, each in its own synctest bubble, and a package-level pool of the code under test must
// not hand an object (a channel, say) created in one bubble to another. Within a run an object put
// back is the next one handed out - one of sync.Pool's legal behaviours, and the one that exposes
// reuse bugs.
type Pool struct {
	New func() any

	mu    sync.Mutex
	run   uintptr
	items []any
}

func (p *Pool) reset() {
	if t := simrt.RunToken(); t != p.run {
		p.run, p.items = t, nil
	}
}

// Get takes an object from the pool, or makes one with New.
func (p *Pool) Get() any {
	p.mu.Lock()
	p.reset()
	if n := len(p.items); n > 0 {
		x := p.items[n-1]
		p.items = p.items[:n-1]
		p.mu.Unlock()
		return x
	}
	p.mu.Unlock()
	if p.New != nil {
		return p.New()
	}
	return nil
}

// Put adds x to the pool.
func (p *Pool) Put(x any) {
	if x == nil {
		return
	}
	p.mu.Lock()
	p.reset()
	p.items = append(p.items, x)
	p.mu.Unlock()
}
type Map = sync.Map
type WaitGroup = sync.WaitGroup
type Cond = sync.Cond

func NewCond(l Locker) *Cond { return sync.NewCond(l) }

const pollEvery = time.Microsecond

// wait sleeps (on the fake clock) with exponential back-off, capped so that a lock that is
// held across long simulated times does not turn into a busy loop.
type waiter struct{ d time.Duration }

func (w *waiter) wait() {
	if w.d == 0 {
		w.d = pollEvery
	}
	time.Sleep(w.d)
	if w.d < 10*time.Millisecond {
		w.d *= 2
	}
}

type Mutex struct{ m sync.Mutex }

func (m *Mutex) Lock() {
	var w waiter
	for !m.m.TryLock() {
		w.wait()
	}
}
func (m *Mutex) TryLock() bool { return m.m.TryLock() }
func (m *Mutex) Unlock()       { m.m.Unlock() }

type RWMutex struct{ m sync.RWMutex }

func (m *RWMutex) RLock() {
	var w waiter
	for !m.m.TryRLock() {
		w.wait()
	}
}
func (m *RWMutex) TryRLock() bool { return m.m.TryRLock() }
func (m *RWMutex) RUnlock()       { m.m.RUnlock() }
func (m *RWMutex) Lock() {
	var w waiter
	for !m.m.TryLock() {
		w.wait()
	}
}
func (m *RWMutex) TryLock() bool { return m.m.TryLock() }
func (m *RWMutex) Unlock()       { m.m.Unlock() }
func (m *RWMutex) RLocker() Locker { return (*rlocker)(m) }

type rlocker RWMutex

func (r *rlocker) Lock()   { (*RWMutex)(r).RLock() }
func (r *rlocker) Unlock() { (*RWMutex)(r).RUnlock() }

// Once: the second caller must wait for the first; poll instead of blocking.
type Once struct {
	mu   sync.Mutex
	done bool
}

func (o *Once) Do(f func()) {
	var w waiter
	for !o.mu.TryLock() {
		w.wait()
	}
	defer o.mu.Unlock()
	if o.done {
		return
	}
	defer func() { o.done = true }()
	f()
}

func OnceFunc(f func()) func() {
	var o Once
	return func() { o.Do(f) }
}

func OnceValue[T any](f func() T) func() T {
	var o Once
	var v T
	return func() T {
		o.Do(func() { v = f() })
		return v
	}
}

func OnceValues[T1, T2 any](f func() (T1, T2)) func() (T1, T2) {
	var o Once
	var v1 T1
	var v2 T2
	return func() (T1, T2) {
		o.Do(func() { v1, v2 = f() })
		return v1, v2
	}
}

// ---------------------------------------------------------------- stalls (T6, race-detector runs)

// StallConfig selects, per run, the statements at which goroutines of the code under test are
// held up and for how long. Everything is a pure function of (Seed, site, fake time): no state
// is shared between the goroutines that pass a site, so a stall synchronises with nobody - it
// creates no happens-before edge, exactly like a preemption of the real program at that point.
type StallConfig struct {
	Seed     uint64
	Permille uint32 // share of the sites that are stall sites in this run (sites in `go func` bodies: x4)
	HitPct   uint32 // share of the passes through a stall site that actually stall
	MaxShift uint32 // durations are 1µs << (0..MaxShift)
	// Only: if set, the single stall site of this run (a targeted run: every pass may stall, for
	// 1µs << (MinShift..MaxShift)); Permille is ignored then
	Only     string
	MinShift uint32
	Budget   int64  // at most this many stalls per run (keeps the simulated duration of a run bounded)
	fired    int64  // approximate: incremented without synchronisation, on purpose
}

var stallCfg atomicPointer

// stallsHeld is raised while the harness lock is held (see world.hmutex). Deliberately unsynchronised.
var stallsHeld bool

// HoldStalls switches stalls off (on) for as long as the harness lock is held.
//
//go:norace
func HoldStalls(on bool) { stallsHeld = on }

// SetStalls installs (or, with nil, removes) the stall plan of the current run.
func SetStalls(c *StallConfig) { stallCfg.Store(c) }

// StallsFired reports (approximately) how many stalls the plan has executed.
//
//go:norace
func StallsFired(c *StallConfig) int64 {
	if c == nil {
		return 0
	}
	return c.fired
}

func mix64(x uint64) uint64 {
	x ^= x >> 33
	x *= 0xff51afd7ed558ccd
	x ^= x >> 33
	x *= 0xc4ceb9fe1a85ec53
	x ^= x >> 33
	return x
}

// Stall is called before every statement of the instrumented package (L1 mode).
//
//go:norace
func Stall(site string) {
	c := stallCfg.Load()
	if c == nil || stallsHeld {
		return
	}
	if c.Only != "" {
		if c.fired >= c.Budget {
			return
		}
		if len(c.Only) > 3 && c.Only[:3] == "fn:" {
			// "fn:<file>(<func>)": every preferred (tagged) site of one function
			if !tagged(site) || !inFunc(site, c.Only[3:]) {
				return
			}
		} else if site != c.Only {
			return
		}
		h2 := mix64(c.Seed ^ uint64(time.Now().UnixNano()) ^ uint64(c.fired)<<40)
		if uint32(h2%100) >= c.HitPct {
			return
		}
		c.fired++
		time.Sleep(time.Microsecond << (uint64(c.MinShift) + (h2>>8)%uint64(c.MaxShift-c.MinShift+1)))
		return
	}
	h := c.Seed
	for i := 0; i < len(site); i++ {
		h = (h ^ uint64(site[i])) * 0x100000001b3
	}
	h = mix64(h)
	pm := c.Permille
	if tagged(site) {
		pm *= 4
	}
	if uint32(h%1000) >= pm {
		return
	}
	h2 := mix64(h ^ uint64(time.Now().UnixNano()))
	if uint32(h2%100) >= c.HitPct {
		return
	}
	if c.fired >= c.Budget {
		return
	}
	c.fired++
	time.Sleep(time.Microsecond << ((h2 >> 8) % uint64(c.MaxShift+1)))
}

func tagged(site string) bool {
	n := len(site)
	return n > 4 && (site[n-3:] == "@go" || site[n-4:] == "@unl")
}

// inFunc reports whether site ("file.go:l:c(func)tag") lies in fn ("file.go(func)").
func inFunc(site, fn string) bool {
	i := 0
	for i < len(fn) && fn[i] != '(' {
		i++
	}
	file, fun := fn[:i], fn[i:]
	if len(site) <= len(file) || site[:len(file)] != file || site[len(file)] != ':' {
		return false
	}
	for j := len(file); j+len(fun) <= len(site); j++ {
		if site[j:j+len(fun)] == fun {
			return true
		}
	}
	return false
}
