// Package dsync replaces package sync inside the gorums package in L1 mode
// (race detector). It wraps the real primitives and only changes how a
// goroutine waits for a lock: instead of blocking on the runtime semaphore
// (which testing/synctest does not regard as a durable block) it polls with
// TryLock and sleeps on the fake clock in between. A failed TryLock creates no
// happens-before edge; a successful one creates exactly the edge Lock would.
package dsync

import (
	"gorumsim/simrt"
	"sync"
	"time"
)

type Locker = sync.Locker
// Pool is sync.Pool with deterministic (LIFO) reuse, partitioned by run: a worker process executes
// many runs, each in its own synctest bubble, and a package-level pool of the code under test must
// not hand an object (a channel, say) created in one bubble to another. Within a run an object put
// back is the next one handed out - one of sync.Pool's legal behaviours, and the one that exposes
// reuse bugs.
type Pool struct {
	New func() any

	mu    sync.Mutex
	run   uintptr
	items []any
}

func (p *Pool) reset() {
	if t := simrt.RunToken(); t != p.run {
		p.run, p.items = t, nil
	}
}

// Get takes an object from the pool, or makes one with New.
func (p *Pool) Get() any {
	p.mu.Lock()
	p.reset()
	if n := len(p.items); n > 0 {
		x := p.items[n-1]
		p.items = p.items[:n-1]
		p.mu.Unlock()
		return x
	}
	p.mu.Unlock()
	if p.New != nil {
		return p.New()
	}
	return nil
}

// Put adds x to the pool.
func (p *Pool) Put(x any) {
	if x == nil {
		return
	}
	p.mu.Lock()
	p.reset()
	p.items = append(p.items, x)
	p.mu.Unlock()
}
type Map = sync.Map
type WaitGroup = sync.WaitGroup
type Cond = sync.Cond

func NewCond(l Locker) *Cond { return sync.NewCond(l) }

const pollEvery = time.Microsecond

// wait sleeps (on the fake clock) with exponential back-off, capped so that a lock that is
// held across long simulated times does not turn into a busy loop.
type waiter struct{ d time.Duration }

func (w *waiter) wait() {
	if w.d == 0 {
		w.d = pollEvery
	}
	time.Sleep(w.d)
	if w.d < 10*time.Millisecond {
		w.d *= 2
	}
}

type Mutex struct{ m sync.Mutex }

func (m *Mutex) Lock() {
	var w waiter
	for !m.m.TryLock() {
		w.wait()
	}
}
func (m *Mutex) TryLock() bool { return m.m.TryLock() }
func (m *Mutex) Unlock()       { m.m.Unlock() }

type RWMutex struct{ m sync.RWMutex }

func (m *RWMutex) RLock() {
	var w waiter
	for !m.m.TryRLock() {
		w.wait()
	}
}
func (m *RWMutex) TryRLock() bool { return m.m.TryRLock() }
func (m *RWMutex) RUnlock()       { m.m.RUnlock() }
func (m *RWMutex) Lock() {
	var w waiter
	for !m.m.TryLock() {
		w.wait()
	}
}
func (m *RWMutex) TryLock() bool { return m.m.TryLock() }
func (m *RWMutex) Unlock()       { m.m.Unlock() }
func (m *RWMutex) RLocker() Locker { return (*rlocker)(m) }

type rlocker RWMutex

func (r *rlocker) Lock()   { (*RWMutex)(r).RLock() }
func (r *rlocker) Unlock() { (*RWMutex)(r).RUnlock() }

// Once: the second caller must wait for the first; poll instead of blocking.
type Once struct {
	mu   sync.Mutex
	done bool
}

func (o *Once) Do(f func()) {
	var w waiter
	for !o.mu.TryLock() {
		w.wait()
	}
	defer o.mu.Unlock()
	if o.done {
		return
	}
	defer func() { o.done = true }()
	f()
}

func OnceFunc(f func()) func() {
	var o Once
	return func() { o.Do(f) }
}

func OnceValue[T any](f func() T) func() T {
	var o Once
	var v T
	return func() T {
		o.Do(func() { v = f() })
		return v
	}
}

func OnceValues[T1, T2 any](f func() (T1, T2)) func() (T1, T2) {
	var o Once
	var v1 T1
	var v2 T2
	return func() (T1, T2) {
		o.Do(func() { v1, v2 = f() })
		return v1, v2
	}
}
