package simrt

import (
	"fmt"
	"reflect"
	"sort"
)

// Case is one communication clause of a rewritten select statement.
type Case interface {
	rcase() reflect.SelectCase
	set(v reflect.Value, ok bool)
}

// RecvSlot is a receive clause; after Select chose it, V and OK hold the result.
type RecvSlot[T any] struct {
	c  <-chan T
	V  T
	OK bool
}

// Recv builds a receive clause for c.
func Recv[T any](c <-chan T) *RecvSlot[T] { return &RecvSlot[T]{c: c} }

func (r *RecvSlot[T]) rcase() reflect.SelectCase {
	return reflect.SelectCase{Dir: reflect.SelectRecv, Chan: reflect.ValueOf(r.c)}
}

func (r *RecvSlot[T]) set(v reflect.Value, ok bool) {
	r.OK = ok
	if ok {
		reflect.ValueOf(&r.V).Elem().Set(v)
	} else {
		var zero T
		r.V = zero
	}
}

// SendSlot is a send clause.
type SendSlot[T any] struct {
	c chan<- T
	v T
}

// Send builds a send clause for c <- v.
func Send[T any](c chan<- T, v T) *SendSlot[T] { return &SendSlot[T]{c: c, v: v} }

func (s *SendSlot[T]) rcase() reflect.SelectCase {
	return reflect.SelectCase{Dir: reflect.SelectSend, Chan: reflect.ValueOf(s.c), Send: reflect.ValueOf(&s.v).Elem()}
}

func (s *SendSlot[T]) set(reflect.Value, bool) {}

// permN returns the aux-th permutation (mod n!) of 0..n-1 in a simple
// factorial-number-system order; aux == 0 is the identity.
func permN(n int, aux uint64) []int {
	p := make([]int, n)
	for i := range p {
		p[i] = i
	}
	if aux == 0 || n < 2 {
		return p
	}
	// Fisher-Yates driven by the digits of aux
	for i := 0; i < n-1; i++ {
		r := uint64(n - i)
		j := i + int(aux%r)
		aux /= r
		p[i], p[j] = p[j], p[i]
	}
	return p
}

// Select implements a rewritten select statement. It returns the index of the
// chosen clause, or -1 for the default clause. It only ever chooses a clause
// that the original select could have chosen: the clauses are first polled
// without blocking in a scheduler-chosen order; if none is ready the default
// clause is taken if there is one, otherwise the task blocks in a real select
// over all clauses.
func Select(site string, hasDefault bool, cases ...Case) int {
	var aux uint64
	s := cur.Load()
	active := false
	if s != nil {
		t := s.self(site)
		g := s.park(t, "sel", site, len(cases), nil, nil)
		aux = g.aux
		active = !g.free
	}
	if active {
		def := reflect.SelectCase{Dir: reflect.SelectDefault}
		for _, i := range permN(len(cases), aux) {
			chosen, v, ok := reflect.Select([]reflect.SelectCase{cases[i].rcase(), def})
			if chosen == 0 {
				cases[i].set(v, ok)
				return i
			}
		}
		if hasDefault {
			return -1
		}
	}
	rc := make([]reflect.SelectCase, 0, len(cases)+1)
	for _, c := range cases {
		rc = append(rc, c.rcase())
	}
	if hasDefault {
		rc = append(rc, reflect.SelectCase{Dir: reflect.SelectDefault})
	}
	chosen, v, ok := reflect.Select(rc)
	if chosen == len(cases) {
		return -1
	}
	cases[chosen].set(v, ok)
	return chosen
}

// Keys returns the keys of m in an order chosen by the scheduler (sorted, then
// permuted), replacing Go's randomised map iteration order.
func Keys[K comparable, V any](site string, m map[K]V) []K {
	keys := make([]K, 0, len(m))
	for k := range m {
		keys = append(keys, k)
	}
	sortKeys(keys)
	s := cur.Load()
	if s == nil || len(keys) < 2 {
		if s != nil {
			Yield(site)
		}
		return keys
	}
	t := s.self(site)
	g := s.park(t, "keys", site, len(keys), nil, nil)
	if g.free || g.aux == 0 {
		return keys
	}
	p := permN(len(keys), g.aux)
	out := make([]K, len(keys))
	for i, j := range p {
		out[i] = keys[j]
	}
	return out
}

func sortKeys[K comparable](keys []K) {
	if len(keys) < 2 {
		return
	}
	switch any(keys[0]).(type) {
	case uint64:
		sort.Slice(keys, func(i, j int) bool { return any(keys[i]).(uint64) < any(keys[j]).(uint64) })
	case uint32:
		sort.Slice(keys, func(i, j int) bool { return any(keys[i]).(uint32) < any(keys[j]).(uint32) })
	case int:
		sort.Slice(keys, func(i, j int) bool { return any(keys[i]).(int) < any(keys[j]).(int) })
	case int64:
		sort.Slice(keys, func(i, j int) bool { return any(keys[i]).(int64) < any(keys[j]).(int64) })
	case int32:
		sort.Slice(keys, func(i, j int) bool { return any(keys[i]).(int32) < any(keys[j]).(int32) })
	case string:
		sort.Slice(keys, func(i, j int) bool { return any(keys[i]).(string) < any(keys[j]).(string) })
	default:
		sort.Slice(keys, func(i, j int) bool { return fmt.Sprintf("%v", keys[i]) < fmt.Sprintf("%v", keys[j]) })
	}
}
