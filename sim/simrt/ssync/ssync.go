// Package ssync replaces package sync inside the instrumented gorums package
// (L2 mode). Acquisitions are scheduling points decided by the simulator;
// releases never park. With no active run, or in free mode, the primitives fall
// back to polling the same model state, so they stay correct during teardown.
package ssync

import (
	"fmt"
	"runtime"
	"sync"
	"time"

	"gorumsim/simrt"
)

// Locker is sync.Locker.
type Locker = sync.Locker

// Pool is sync.Pool with deterministic (LIFO) reuse, partitioned by run: a worker process executes
// many runs, each in its own synctest bubble, and a package-level pool of the code under test must
// not hand an object (a channel, say) created in one bubble to another. Within a run an object put
// back is the next one handed out - one of sync.Pool's legal behaviours, and the one that exposes
// reuse bugs.
type Pool struct {
	New func() any

	mu    sync.Mutex
	run   uintptr
	items []any
}

func (p *Pool) reset() {
	if t := simrt.RunToken(); t != p.run {
		p.run, p.items = t, nil
	}
}

// Get takes an object from the pool, or makes one with New.
func (p *Pool) Get() any {
	p.mu.Lock()
	p.reset()
	if n := len(p.items); n > 0 {
		x := p.items[n-1]
		p.items = p.items[:n-1]
		p.mu.Unlock()
		return x
	}
	p.mu.Unlock()
	if p.New != nil {
		return p.New()
	}
	return nil
}

// Put adds x to the pool.
func (p *Pool) Put(x any) {
	if x == nil {
		return
	}
	p.mu.Lock()
	p.reset()
	p.items = append(p.items, x)
	p.mu.Unlock()
}

// poll is the fallback used with no active run and in free mode (teardown): it
// retries with exponential back-off on the (fake) clock. Once the run has been
// declared dead the goroutine ends instead of polling forever.
func poll(try func() bool) {
	d := time.Microsecond
	for {
		simrt.Lock()
		ok := try()
		simrt.Unlock()
		if ok {
			return
		}
		if simrt.Dead() {
			runtime.Goexit()
		}
		time.Sleep(d)
		if d < time.Second {
			d *= 2
		}
	}
}

// Mutex models sync.Mutex. Any waiter may win when the mutex is released.
type Mutex struct {
	locked bool
}

func (m *Mutex) Lock() {
	site := simrt.Caller(1)
	if simrt.Acquire("lock", site, fmt.Sprintf("Mutex@%p", m), func() bool { return !m.locked }, func() { m.locked = true }) {
		return
	}
	poll(func() bool {
		if m.locked {
			return false
		}
		m.locked = true
		return true
	})
}

func (m *Mutex) TryLock() bool {
	simrt.YieldKind("trylock", simrt.Caller(1))
	simrt.Lock()
	defer simrt.Unlock()
	if m.locked {
		return false
	}
	m.locked = true
	return true
}

func (m *Mutex) Unlock() {
	simrt.Lock()
	if !m.locked {
		simrt.Unlock()
		simrt.Fatal("sync: unlock of unlocked mutex")
		return
	}
	m.locked = false
	simrt.Unlock()
}

// RWMutex models sync.RWMutex with Go's documented semantics: a writer that has
// announced itself (called Lock) blocks new readers until it has acquired and
// released the lock.
type RWMutex struct {
	w       int // 0: no writer, 1: writer announced and waiting for readers, 2: writer holds
	readers int
}

func (m *RWMutex) RLock() {
	site := simrt.Caller(1)
	if simrt.Acquire("rlock", site, fmt.Sprintf("RWMutex@%p(read)", m), func() bool { return m.w == 0 }, func() { m.readers++ }) {
		return
	}
	poll(func() bool {
		if m.w != 0 {
			return false
		}
		m.readers++
		return true
	})
}

func (m *RWMutex) TryRLock() bool {
	simrt.YieldKind("trylock", simrt.Caller(1))
	simrt.Lock()
	defer simrt.Unlock()
	if m.w != 0 {
		return false
	}
	m.readers++
	return true
}

func (m *RWMutex) RUnlock() {
	simrt.Lock()
	if m.readers <= 0 {
		simrt.Unlock()
		simrt.Fatal("sync: RUnlock of unlocked RWMutex")
		return
	}
	m.readers--
	simrt.Unlock()
}

func (m *RWMutex) Lock() {
	site := simrt.Caller(1)
	what := fmt.Sprintf("RWMutex@%p(write)", m)
	// stage 1: become the announced writer (excludes other writers, blocks new readers)
	done := false
	ok := simrt.Acquire("wlock", site, what, func() bool { return m.w == 0 }, func() {
		if m.readers == 0 {
			m.w = 2
			done = true
		} else {
			m.w = 1
		}
	})
	if ok {
		if done {
			return
		}
		// stage 2: wait for the active readers to leave
		if simrt.Acquire("wlock-wait", site, what, func() bool { return m.readers == 0 }, func() { m.w = 2 }) {
			return
		}
		poll(func() bool {
			if m.readers != 0 {
				return false
			}
			m.w = 2
			return true
		})
		return
	}
	poll(func() bool {
		if m.w != 0 {
			return false
		}
		m.w = 1
		return true
	})
	poll(func() bool {
		if m.readers != 0 {
			return false
		}
		m.w = 2
		return true
	})
}

func (m *RWMutex) TryLock() bool {
	simrt.YieldKind("trylock", simrt.Caller(1))
	simrt.Lock()
	defer simrt.Unlock()
	if m.w != 0 || m.readers != 0 {
		return false
	}
	m.w = 2
	return true
}

func (m *RWMutex) Unlock() {
	simrt.Lock()
	if m.w != 2 {
		simrt.Unlock()
		simrt.Fatal("sync: Unlock of unlocked RWMutex")
		return
	}
	m.w = 0
	simrt.Unlock()
}

// RLocker returns a Locker for the read side.
func (m *RWMutex) RLocker() Locker { return (*rlocker)(m) }

type rlocker RWMutex

func (r *rlocker) Lock()   { (*RWMutex)(r).RLock() }
func (r *rlocker) Unlock() { (*RWMutex)(r).RUnlock() }

// Once models sync.Once: a second caller waits until the first call of f has returned.
type Once struct {
	state int // 0 fresh, 1 running, 2 done
}

func (o *Once) Do(f func()) {
	site := simrt.Caller(1)
	run := false
	ok := simrt.Acquire("once", site, fmt.Sprintf("Once@%p", o), func() bool { return o.state != 1 }, func() {
		if o.state == 0 {
			o.state = 1
			run = true
		}
	})
	if !ok {
		poll(func() bool {
			if o.state == 1 {
				return false
			}
			if o.state == 0 {
				o.state = 1
				run = true
			}
			return true
		})
	}
	if !run {
		return
	}
	defer func() {
		simrt.Lock()
		o.state = 2
		simrt.Unlock()
	}()
	f()
}

// WaitGroup models sync.WaitGroup.
type WaitGroup struct {
	n int
}

func (wg *WaitGroup) Add(d int) {
	simrt.Lock()
	wg.n += d
	neg := wg.n < 0
	simrt.Unlock()
	if neg {
		panic("sync: negative WaitGroup counter")
	}
}

func (wg *WaitGroup) Done() { wg.Add(-1) }

func (wg *WaitGroup) Wait() {
	site := simrt.Caller(1)
	if simrt.Acquire("wgwait", site, fmt.Sprintf("WaitGroup@%p", wg), func() bool { return wg.n == 0 }, func() {}) {
		return
	}
	poll(func() bool { return wg.n == 0 })
}

func (wg *WaitGroup) Go(f func()) {
	wg.Add(1)
	simrt.Go(simrt.Caller(1), "wg.Go", func() {
		defer wg.Done()
		f()
	})
}

// Cond models sync.Cond on top of a Locker.
type Cond struct {
	L       Locker
	waiters []*condWaiter
}

type condWaiter struct{ signalled bool }

func NewCond(l Locker) *Cond { return &Cond{L: l} }

func (c *Cond) Wait() {
	site := simrt.Caller(1)
	w := &condWaiter{}
	simrt.Lock()
	c.waiters = append(c.waiters, w)
	simrt.Unlock()
	c.L.Unlock()
	if !simrt.Acquire("condwait", site, fmt.Sprintf("Cond@%p", c), func() bool { return w.signalled }, func() {}) {
		poll(func() bool { return w.signalled })
	}
	c.L.Lock()
}

func (c *Cond) Signal() {
	simrt.Lock()
	if len(c.waiters) > 0 {
		c.waiters[0].signalled = true
		c.waiters = c.waiters[1:]
	}
	simrt.Unlock()
}

func (c *Cond) Broadcast() {
	simrt.Lock()
	for _, w := range c.waiters {
		w.signalled = true
	}
	c.waiters = nil
	simrt.Unlock()
}

// Map is a deterministic replacement for sync.Map (ordered Range).
type Map struct {
	mu Mutex
	m  map[any]any
	ks []any
}

func (m *Map) Load(k any) (any, bool) {
	m.mu.Lock()
	defer m.mu.Unlock()
	v, ok := m.m[k]
	return v, ok
}

func (m *Map) Store(k, v any) {
	m.mu.Lock()
	defer m.mu.Unlock()
	m.storeLocked(k, v)
}

func (m *Map) storeLocked(k, v any) {
	if m.m == nil {
		m.m = map[any]any{}
	}
	if _, ok := m.m[k]; !ok {
		m.ks = append(m.ks, k)
	}
	m.m[k] = v
}

func (m *Map) LoadOrStore(k, v any) (any, bool) {
	m.mu.Lock()
	defer m.mu.Unlock()
	if old, ok := m.m[k]; ok {
		return old, true
	}
	m.storeLocked(k, v)
	return v, false
}

func (m *Map) deleteLocked(k any) {
	if _, ok := m.m[k]; !ok {
		return
	}
	delete(m.m, k)
	for i, x := range m.ks {
		if x == k {
			m.ks = append(m.ks[:i:i], m.ks[i+1:]...)
			break
		}
	}
}

func (m *Map) LoadAndDelete(k any) (any, bool) {
	m.mu.Lock()
	defer m.mu.Unlock()
	v, ok := m.m[k]
	m.deleteLocked(k)
	return v, ok
}

func (m *Map) Delete(k any) {
	m.mu.Lock()
	defer m.mu.Unlock()
	m.deleteLocked(k)
}

func (m *Map) Swap(k, v any) (any, bool) {
	m.mu.Lock()
	defer m.mu.Unlock()
	old, ok := m.m[k]
	m.storeLocked(k, v)
	return old, ok
}

func (m *Map) CompareAndSwap(k, old, new any) bool {
	m.mu.Lock()
	defer m.mu.Unlock()
	if cur, ok := m.m[k]; ok && cur == old {
		m.m[k] = new
		return true
	}
	return false
}

func (m *Map) CompareAndDelete(k, old any) bool {
	m.mu.Lock()
	defer m.mu.Unlock()
	if cur, ok := m.m[k]; ok && cur == old {
		m.deleteLocked(k)
		return true
	}
	return false
}

// Range iterates in insertion order (deterministic).
func (m *Map) Range(f func(k, v any) bool) {
	m.mu.Lock()
	ks := append([]any(nil), m.ks...)
	m.mu.Unlock()
	for _, k := range ks {
		m.mu.Lock()
		v, ok := m.m[k]
		m.mu.Unlock()
		if !ok {
			continue
		}
		if !f(k, v) {
			return
		}
	}
}

func (m *Map) Clear() {
	m.mu.Lock()
	defer m.mu.Unlock()
	m.m = nil
	m.ks = nil
}

// OnceFunc, OnceValue, OnceValues mirror the sync helpers.
func OnceFunc(f func()) func() {
	var o Once
	return func() { o.Do(f) }
}

func OnceValue[T any](f func() T) func() T {
	var o Once
	var v T
	return func() T {
		o.Do(func() { v = f() })
		return v
	}
}

func OnceValues[T1, T2 any](f func() (T1, T2)) func() (T1, T2) {
	var o Once
	var v1 T1
	var v2 T2
	return func() (T1, T2) {
		o.Do(func() { v1, v2 = f() })
		return v1, v2
	}
}
