// Package srand replaces math/rand inside the instrumented gorums package: the
// global functions draw from a deterministic per-task stream derived from the
// run seed, never from the process-global generator.
package srand

import (
	"math/rand"

	"gorumsim/simrt"
)

type Rand = rand.Rand
type Source = rand.Source
type Source64 = rand.Source64
type Zipf = rand.Zipf

func New(src Source) *Rand { return rand.New(src) }

// NewSource ignores the (usually time-derived) seed and derives one from the run.
func NewSource(seed int64) Source { return rand.NewSource(int64(simrt.TaskRand() >> 1)) }
func NewZipf(r *Rand, s, v float64, imax uint64) *Zipf { return rand.NewZipf(r, s, v, imax) }

func Seed(int64) {}

func u64() uint64 { return simrt.TaskRand() }

func Int63() int64    { return int64(u64() >> 1) }
func Uint32() uint32  { return uint32(u64() >> 32) }
func Uint64() uint64  { return u64() }
func Int31() int32    { return int32(u64() >> 33) }
func Int() int        { return int(uint(u64() >> 1)) }
func Float64() float64 { return float64(u64()>>11) / (1 << 53) }
func Float32() float32 { return float32(u64()>>40) / (1 << 24) }
func Int63n(n int64) int64 {
	if n <= 0 {
		panic("invalid argument to Int63n")
	}
	return int64(u64()>>1) % n
}
func Int31n(n int32) int32 {
	if n <= 0 {
		panic("invalid argument to Int31n")
	}
	return int32(u64()>>33) % n
}
func Intn(n int) int {
	if n <= 0 {
		panic("invalid argument to Intn")
	}
	return int(u64()>>1) % n
}
func Perm(n int) []int {
	p := make([]int, n)
	for i := range p {
		p[i] = i
	}
	Shuffle(n, func(i, j int) { p[i], p[j] = p[j], p[i] })
	return p
}
func Shuffle(n int, swap func(i, j int)) {
	for i := n - 1; i > 0; i-- {
		swap(i, Intn(i+1))
	}
}
func ExpFloat64() float64  { return rand.New(rand.NewSource(Int63())).ExpFloat64() }
func NormFloat64() float64 { return rand.New(rand.NewSource(Int63())).NormFloat64() }
func Read(p []byte) (int, error) {
	for i := range p {
		p[i] = byte(u64())
	}
	return len(p), nil
}
