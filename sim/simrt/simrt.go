// Package simrt is the scheduler runtime of the gorums simulator.
//
// One simulation ("run") is active per process at a time. Every goroutine that
// executes harness code or instrumented gorums code is a Task. A task that
// reaches a scheduling point (Yield, Select, a model mutex acquisition, ...)
// parks on a private channel - which is a durable block in the sense of
// testing/synctest - until the driver releases it. The driver (root goroutine
// of the bubble) alternates synctest.Wait() with "pick one enabled action and
// execute it"; all nondeterministic decisions are therefore taken by the
// driver's Chooser.
//
// With no active run (cur == nil) or in free mode every hook degenerates to the
// plain Go operation, so instrumented code keeps working during teardown.
package simrt

import (
	"bytes"
	"fmt"
	"runtime"
	"sort"
	"strconv"
	"strings"
	"sync"
	"sync/atomic"
	"time"
)

// mu protects all scheduler state. It is a real mutex, held only for short
// critical sections and never while a task is parked.
var mu sync.Mutex

// cur is the active run, nil if none.
var cur atomic.Pointer[Sched]

// RunToken identifies the current run (0 outside any run); package-level state of the code under
// test that the shims keep (sync.Pool) is partitioned by it, because objects created inside one
// synctest bubble must not be used in another.
func RunToken() uintptr {
	if s := cur.Load(); s != nil {
		return uintptr(s.runID)
	}
	return 0
}

var runSeq atomic.Uint64

type grant struct {
	aux  uint64
	free bool
}

// Task is a goroutine known to the scheduler.
type Task struct {
	Name   string
	Role   string // stable, id-free label used for signatures ("sender", "call", ...)
	gid    uint64
	wake   chan grant
	parked bool
	kind   string // kind of scheduling point the task is parked at
	site   string
	// enabled, if non-nil, is evaluated by the driver (under mu) to decide
	// whether the parked task may be released.
	enabled func() bool
	// onGrant, if non-nil, is run by the driver (under mu) at the moment the task is
	// released; model primitives use it to acquire atomically with the decision.
	onGrant func()
	nalt    int
	spawn   map[string]int
	exited  bool
	foreign bool
	Steps   int
	seq     uint64 // per-task counter for derived randomness
	waitObj string // description of what a disabled task waits for
}

// Site returns where the task is parked ("" if running).
func (t *Task) Site() string { return t.site }

// Kind returns the kind of scheduling point the task is parked at.
func (t *Task) Kind() string { return t.kind }

// PanicRec is a recovered panic (or modelled fatal error) of a task.
type PanicRec struct {
	Task  string
	Value string
	Stack string
	Fatal bool
}

// Sched is one run's scheduler state.
type Sched struct {
	runID    uint64 // unique per process (RunToken)
	freeA    atomic.Bool // lock-free copy of free
	Seed     uint64
	tasks    map[uint64]*Task // by goroutine id
	byName   map[string]*Task
	all      []*Task
	free     bool
	foreignN map[string]int
	Panics   []PanicRec
	// Unnamed counts foreign goroutines that had to be adopted by arrival order.
	Unnamed int
	// SiteHits counts arrivals per (role,site) when profiling is on.
	Profile  bool
	SiteHits map[string]int
	// OnPark, if set, is called (under mu) whenever a task parks; used for
	// site-triggered faults. It must not block.
	OnPark func(t *Task)
	// RoleOf maps a spawn site / task name to a role label.
	RoleOf func(name, site string) string
}

// NewSched creates the scheduler for a run and makes it current. It must be
// called from inside the bubble.
func NewSched(seed uint64) *Sched {
	s := &Sched{
		Seed:     seed,
		tasks:    map[uint64]*Task{},
		byName:   map[string]*Task{},
		foreignN: map[string]int{},
		SiteHits: map[string]int{},
	}
	s.runID = runSeq.Add(1)
	dead.Store(false)
	cur.Store(s)
	return s
}

// Stop deactivates the scheduler: all hooks become pass-through.
func (s *Sched) Stop() {
	cur.CompareAndSwap(s, nil)
}

var dead atomic.Bool

// Kill declares the run dead: goroutines still polling for a model lock end.
func (s *Sched) Kill() { dead.Store(true) }

// Dead reports whether the last run has been declared dead.
func Dead() bool { return dead.Load() }

// Current returns the active scheduler or nil.
func Current() *Sched { return cur.Load() }

// Active reports whether a run is active and not in free mode.
func Active() bool {
	s := cur.Load()
	if s == nil {
		return false
	}
	mu.Lock()
	f := s.free
	mu.Unlock()
	return !f
}

var gidPrefix = []byte("goroutine ")

func goid() uint64 {
	var buf [64]byte
	n := runtime.Stack(buf[:], false)
	b := buf[:n]
	b = bytes.TrimPrefix(b, gidPrefix)
	i := bytes.IndexByte(b, ' ')
	if i < 0 {
		return 0
	}
	id, _ := strconv.ParseUint(string(b[:i]), 10, 64)
	return id
}

func (s *Sched) newTaskLocked(name string) *Task {
	if _, dup := s.byName[name]; dup {
		// keep names unique; a duplicate can only come from explicit naming
		for i := 2; ; i++ {
			n2 := name + "~" + strconv.Itoa(i)
			if _, d := s.byName[n2]; !d {
				name = n2
				break
			}
		}
	}
	t := &Task{Name: name, wake: make(chan grant, 1), spawn: map[string]int{}}
	s.byName[name] = t
	s.all = append(s.all, t)
	return t
}

// self returns the calling goroutine's task, adopting it as a foreign task if
// it is unknown.
func (s *Sched) self(site string) *Task {
	id := goid()
	mu.Lock()
	t := s.tasks[id]
	if t == nil {
		n := s.foreignN[site]
		s.foreignN[site] = n + 1
		s.Unnamed++
		t = s.newTaskLocked("f:" + site + "#" + strconv.Itoa(n))
		t.foreign = true
		t.gid = id
		if s.RoleOf != nil {
			t.Role = s.RoleOf(t.Name, site)
		}
		s.tasks[id] = t
	}
	mu.Unlock()
	return t
}

// Self returns the calling goroutine's task (nil when no run is active).
func Self() *Task {
	s := cur.Load()
	if s == nil {
		return nil
	}
	id := goid()
	mu.Lock()
	t := s.tasks[id]
	mu.Unlock()
	return t
}

// SelfName returns the name of the calling task, or "" if unknown.
func SelfName() string {
	if t := Self(); t != nil {
		return t.Name
	}
	return ""
}

// Adopt names the calling goroutine (which must not be a task yet, or be a
// foreign task adopted by arrival order). Used by the harness for goroutines
// created by third-party code (gRPC server streams).
func Adopt(name, role string) {
	s := cur.Load()
	if s == nil {
		return
	}
	id := goid()
	mu.Lock()
	defer mu.Unlock()
	if t := s.tasks[id]; t != nil {
		if t.foreign {
			delete(s.byName, t.Name)
			if _, dup := s.byName[name]; dup {
				name = name + "~" + strconv.FormatUint(uint64(len(s.all)), 10)
			}
			t.Name = name
			t.Role = role
			t.foreign = false
			s.byName[name] = t
			s.Unnamed--
		}
		return
	}
	t := s.newTaskLocked(name)
	t.gid = id
	t.Role = role
	s.tasks[id] = t
}

// Disown removes the calling goroutine from the task table (the goroutine goes on
// as an unscheduled foreign goroutine). Used when a foreign goroutine leaves
// harness/library code for good.
func Disown() {
	s := cur.Load()
	if s == nil {
		return
	}
	id := goid()
	mu.Lock()
	if t := s.tasks[id]; t != nil {
		t.exited = true
		delete(s.tasks, id)
	}
	mu.Unlock()
}

func shortSite(site string) string {
	return site
}

// Go starts f as a new task named after its parent and spawn site.
func Go(site, role string, f func()) {
	s := cur.Load()
	if s == nil {
		go f()
		return
	}
	parent := s.self(site)
	mu.Lock()
	n := parent.spawn[site]
	parent.spawn[site] = n + 1
	name := parent.Name + "/" + shortSite(site) + "#" + strconv.Itoa(n)
	t := s.newTaskLocked(name)
	t.Role = role
	mu.Unlock()
	go s.runTask(t, "go:"+site, f)
}

// GoNamed starts f as a task with an explicit name (harness use).
func GoNamed(name, role string, f func()) *Task {
	s := cur.Load()
	if s == nil {
		go f()
		return nil
	}
	mu.Lock()
	t := s.newTaskLocked(name)
	t.Role = role
	mu.Unlock()
	go s.runTask(t, "start", f)
	return t
}

func (s *Sched) runTask(t *Task, startSite string, f func()) {
	id := goid()
	mu.Lock()
	t.gid = id
	s.tasks[id] = t
	mu.Unlock()
	defer func() {
		if r := recover(); r != nil {
			if _, ok := r.(goexit); !ok {
				s.recordPanic(t, r, false)
			}
		}
		mu.Lock()
		t.exited = true
		delete(s.tasks, id)
		mu.Unlock()
	}()
	s.park(t, "yield", startSite, 0, nil, nil)
	f()
}

type goexit struct{}

func (s *Sched) recordPanic(t *Task, r any, fatal bool) {
	buf := make([]byte, 16<<10)
	n := runtime.Stack(buf, false)
	mu.Lock()
	s.Panics = append(s.Panics, PanicRec{Task: t.Name, Value: fmt.Sprint(r), Stack: string(buf[:n]), Fatal: fatal})
	mu.Unlock()
}

// Fatal records a modelled runtime fatal error (e.g. unlock of unlocked mutex)
// and terminates the calling task.
func Fatal(msg string) {
	s := cur.Load()
	if s == nil {
		panic("fatal error: " + msg)
	}
	t := s.self("fatal")
	s.recordPanic(t, "fatal error: "+msg, true)
	panic(goexit{})
}

// RecordPanic lets harness code record a panic it recovered itself.
func RecordPanic(r any) {
	s := cur.Load()
	if s == nil {
		return
	}
	t := s.self("panic")
	s.recordPanic(t, r, false)
}

func (s *Sched) park(t *Task, kind, site string, nalt int, enabled func() bool, onGrant func()) grant {
	mu.Lock()
	if s.free {
		mu.Unlock()
		return grant{free: true}
	}
	t.parked = true
	t.kind = kind
	t.site = site
	t.nalt = nalt
	t.enabled = enabled
	t.onGrant = onGrant
	if s.Profile {
		s.SiteHits[t.Role+"@"+site]++
	}
	if s.OnPark != nil {
		s.OnPark(t)
	}
	mu.Unlock()
	g := <-t.wake
	return g
}

// Yield is an unconditional scheduling point.
func Yield(site string) {
	s := cur.Load()
	if s == nil || s.freeA.Load() {
		return
	}
	t := s.self(site)
	s.park(t, "yield", site, 0, nil, nil)
}

// YieldKind is a scheduling point with a kind label (used by shims).
func YieldKind(kind, site string) {
	s := cur.Load()
	if s == nil || s.freeA.Load() {
		return
	}
	t := s.self(site)
	s.park(t, kind, site, 0, nil, nil)
}

// Gate parks the calling task until enabled() holds (evaluated by the driver
// under the scheduler lock; it must be cheap and must not block) and the
// scheduler picks it. In free mode it returns at once. It reports whether the
// release was a free-mode release.
func Gate(site string, enabled func() bool) (free bool) {
	s := cur.Load()
	if s == nil {
		return true
	}
	t := s.self(site)
	g := s.park(t, "gate", site, 0, enabled, nil)
	if g.free {
		// free mode: nobody schedules; wait for the condition by polling on the (fake) clock
		d := time.Microsecond
		for {
			mu.Lock()
			ok := enabled()
			mu.Unlock()
			if ok || Dead() || cur.Load() != s {
				break
			}
			time.Sleep(d)
			if d < 10*time.Millisecond {
				d *= 2
			}
		}
	}
	return g.free
}

// Acquire is the primitive for model locks: the task parks until can() holds,
// and take() is executed by the driver atomically with the decision to release
// the task. what describes the awaited object for stuck reports.
// It returns false in free mode, in which case nothing was taken.
func Acquire(kind, site, what string, can func() bool, take func()) bool {
	s := cur.Load()
	if s == nil {
		return false
	}
	t := s.self(site)
	mu.Lock()
	t.waitObj = what
	mu.Unlock()
	g := s.park(t, kind, site, 0, can, take)
	return !g.free
}

// Lock/Unlock give shims access to the scheduler lock for their model state.
func Lock()   { mu.Lock() }
func Unlock() { mu.Unlock() }

// Caller returns "file.go:line" of the caller's caller (skip=1) etc.
func Caller(skip int) string {
	_, file, line, ok := runtime.Caller(skip + 1)
	if !ok {
		return "?"
	}
	if i := strings.LastIndexByte(file, '/'); i >= 0 {
		file = file[i+1:]
	}
	return file + ":" + strconv.Itoa(line)
}

// TaskRand returns a deterministic pseudo-random 64-bit value for the calling
// task (derived from the run seed, the task name and a per-task counter), so
// that tasks never draw from the driver's PRNG.
func TaskRand() uint64 {
	s := cur.Load()
	if s == nil {
		return uint64(time.Now().UnixNano())
	}
	t := s.self("rand")
	mu.Lock()
	t.seq++
	n := t.seq
	mu.Unlock()
	h := s.Seed ^ 0x9e3779b97f4a7c15
	for i := 0; i < len(t.Name); i++ {
		h = (h ^ uint64(t.Name[i])) * 0x100000001b3
	}
	h ^= n * 0xbf58476d1ce4e5b9
	h ^= h >> 30
	h *= 0xbf58476d1ce4e5b9
	h ^= h >> 27
	h *= 0x94d049bb133111eb
	h ^= h >> 31
	return h
}

// ---------------------------------------------------------------- driver side

// TaskInfo is a snapshot of a task for the driver.
type TaskInfo struct {
	T       *Task
	Name    string
	Role    string
	Kind    string
	Site    string
	Enabled bool
	NAlt    int
	Wait    string
}

// Parked returns a snapshot of all parked tasks sorted by name.
func (s *Sched) Parked() []TaskInfo {
	mu.Lock()
	defer mu.Unlock()
	var out []TaskInfo
	for _, t := range s.all {
		if t.exited || !t.parked {
			continue
		}
		en := t.enabled == nil || t.enabled()
		out = append(out, TaskInfo{T: t, Name: t.Name, Role: t.Role, Kind: t.kind, Site: t.site, Enabled: en, NAlt: t.nalt, Wait: t.waitObj})
	}
	sort.Slice(out, func(i, j int) bool { return out[i].Name < out[j].Name })
	return out
}

// Release lets a parked task run. aux carries the scheduler's choice among the
// task's alternatives (select case order, map iteration order).
func (s *Sched) Release(t *Task, aux uint64) {
	mu.Lock()
	if !t.parked {
		mu.Unlock()
		panic("simrt: release of a task that is not parked: " + t.Name)
	}
	if t.onGrant != nil {
		t.onGrant()
	}
	t.parked = false
	t.enabled = nil
	t.onGrant = nil
	t.kind, t.site = "", ""
	t.Steps++
	mu.Unlock()
	t.wake <- grant{aux: aux}
}

// FreeRun switches to free mode: every parked task is released and all later
// scheduling points are pass-through (model locks fall back to polling).
func (s *Sched) FreeRun() {
	mu.Lock()
	s.free = true
	s.freeA.Store(true)
	var rel []*Task
	for _, t := range s.all {
		if t.parked && !t.exited {
			t.parked = false
			t.enabled = nil
			t.onGrant = nil
			rel = append(rel, t)
		}
	}
	mu.Unlock()
	for _, t := range rel {
		t.wake <- grant{free: true}
	}
}

// GIDOf returns the goroutine id of the named task (0 if unknown).
func (s *Sched) GIDOf(name string) uint64 {
	mu.Lock()
	defer mu.Unlock()
	if t := s.byName[name]; t != nil {
		return t.gid
	}
	return 0
}

// Live returns the names of tasks that have not exited.
func (s *Sched) Live() []string {
	mu.Lock()
	defer mu.Unlock()
	var out []string
	for _, t := range s.all {
		if !t.exited {
			out = append(out, t.Name)
		}
	}
	sort.Strings(out)
	return out
}

// LiveRoles returns name -> role of the tasks that have not exited.
func (s *Sched) LiveRoles() map[string]string {
	mu.Lock()
	defer mu.Unlock()
	out := map[string]string{}
	for _, t := range s.all {
		if !t.exited {
			out[t.Name] = t.Role
		}
	}
	return out
}

// NumTasks returns the number of tasks ever created.
func (s *Sched) NumTasks() int {
	mu.Lock()
	defer mu.Unlock()
	return len(s.all)
}

// TakePanics returns recorded panics.
func (s *Sched) TakePanics() []PanicRec {
	mu.Lock()
	defer mu.Unlock()
	return append([]PanicRec(nil), s.Panics...)
}
