// Package satomic replaces sync/atomic inside the instrumented gorums package
// (L2 mode): every operation is a scheduling point followed by the real atomic.
package satomic

import (
	"sync/atomic"
	"unsafe"

	"gorumsim/simrt"
)

func y() { simrt.YieldKind("atomic", simrt.Caller(2)) }

func LoadInt32(p *int32) int32       { y(); return atomic.LoadInt32(p) }
func LoadInt64(p *int64) int64       { y(); return atomic.LoadInt64(p) }
func LoadUint32(p *uint32) uint32    { y(); return atomic.LoadUint32(p) }
func LoadUint64(p *uint64) uint64    { y(); return atomic.LoadUint64(p) }
func LoadUintptr(p *uintptr) uintptr { y(); return atomic.LoadUintptr(p) }
func LoadPointer(p *unsafe.Pointer) unsafe.Pointer {
	y()
	return atomic.LoadPointer(p)
}
func StoreInt32(p *int32, v int32)       { y(); atomic.StoreInt32(p, v) }
func StoreInt64(p *int64, v int64)       { y(); atomic.StoreInt64(p, v) }
func StoreUint32(p *uint32, v uint32)    { y(); atomic.StoreUint32(p, v) }
func StoreUint64(p *uint64, v uint64)    { y(); atomic.StoreUint64(p, v) }
func StoreUintptr(p *uintptr, v uintptr) { y(); atomic.StoreUintptr(p, v) }
func StorePointer(p *unsafe.Pointer, v unsafe.Pointer) {
	y()
	atomic.StorePointer(p, v)
}
func AddInt32(p *int32, d int32) int32          { y(); return atomic.AddInt32(p, d) }
func AddInt64(p *int64, d int64) int64          { y(); return atomic.AddInt64(p, d) }
func AddUint32(p *uint32, d uint32) uint32      { y(); return atomic.AddUint32(p, d) }
func AddUint64(p *uint64, d uint64) uint64      { y(); return atomic.AddUint64(p, d) }
func AddUintptr(p *uintptr, d uintptr) uintptr  { y(); return atomic.AddUintptr(p, d) }
func SwapInt32(p *int32, v int32) int32         { y(); return atomic.SwapInt32(p, v) }
func SwapInt64(p *int64, v int64) int64         { y(); return atomic.SwapInt64(p, v) }
func SwapUint32(p *uint32, v uint32) uint32     { y(); return atomic.SwapUint32(p, v) }
func SwapUint64(p *uint64, v uint64) uint64     { y(); return atomic.SwapUint64(p, v) }
func SwapUintptr(p *uintptr, v uintptr) uintptr { y(); return atomic.SwapUintptr(p, v) }
func SwapPointer(p *unsafe.Pointer, v unsafe.Pointer) unsafe.Pointer {
	y()
	return atomic.SwapPointer(p, v)
}
func CompareAndSwapInt32(p *int32, o, n int32) bool       { y(); return atomic.CompareAndSwapInt32(p, o, n) }
func CompareAndSwapInt64(p *int64, o, n int64) bool       { y(); return atomic.CompareAndSwapInt64(p, o, n) }
func CompareAndSwapUint32(p *uint32, o, n uint32) bool    { y(); return atomic.CompareAndSwapUint32(p, o, n) }
func CompareAndSwapUint64(p *uint64, o, n uint64) bool    { y(); return atomic.CompareAndSwapUint64(p, o, n) }
func CompareAndSwapUintptr(p *uintptr, o, n uintptr) bool { y(); return atomic.CompareAndSwapUintptr(p, o, n) }
func CompareAndSwapPointer(p *unsafe.Pointer, o, n unsafe.Pointer) bool {
	y()
	return atomic.CompareAndSwapPointer(p, o, n)
}
func AndInt32(p *int32, m int32) int32       { y(); return atomic.AndInt32(p, m) }
func AndUint32(p *uint32, m uint32) uint32   { y(); return atomic.AndUint32(p, m) }
func AndInt64(p *int64, m int64) int64       { y(); return atomic.AndInt64(p, m) }
func AndUint64(p *uint64, m uint64) uint64   { y(); return atomic.AndUint64(p, m) }
func OrInt32(p *int32, m int32) int32        { y(); return atomic.OrInt32(p, m) }
func OrUint32(p *uint32, m uint32) uint32    { y(); return atomic.OrUint32(p, m) }
func OrInt64(p *int64, m int64) int64        { y(); return atomic.OrInt64(p, m) }
func OrUint64(p *uint64, m uint64) uint64    { y(); return atomic.OrUint64(p, m) }

type Bool struct{ v atomic.Bool }

func (x *Bool) Load() bool                { y(); return x.v.Load() }
func (x *Bool) Store(v bool)              { y(); x.v.Store(v) }
func (x *Bool) Swap(v bool) bool          { y(); return x.v.Swap(v) }
func (x *Bool) CompareAndSwap(o, n bool) bool { y(); return x.v.CompareAndSwap(o, n) }

type Int32 struct{ v atomic.Int32 }

func (x *Int32) Load() int32                    { y(); return x.v.Load() }
func (x *Int32) Store(v int32)                  { y(); x.v.Store(v) }
func (x *Int32) Swap(v int32) int32             { y(); return x.v.Swap(v) }
func (x *Int32) Add(d int32) int32              { y(); return x.v.Add(d) }
func (x *Int32) CompareAndSwap(o, n int32) bool { y(); return x.v.CompareAndSwap(o, n) }

type Int64 struct{ v atomic.Int64 }

func (x *Int64) Load() int64                    { y(); return x.v.Load() }
func (x *Int64) Store(v int64)                  { y(); x.v.Store(v) }
func (x *Int64) Swap(v int64) int64             { y(); return x.v.Swap(v) }
func (x *Int64) Add(d int64) int64              { y(); return x.v.Add(d) }
func (x *Int64) CompareAndSwap(o, n int64) bool { y(); return x.v.CompareAndSwap(o, n) }

type Uint32 struct{ v atomic.Uint32 }

func (x *Uint32) Load() uint32                    { y(); return x.v.Load() }
func (x *Uint32) Store(v uint32)                  { y(); x.v.Store(v) }
func (x *Uint32) Swap(v uint32) uint32            { y(); return x.v.Swap(v) }
func (x *Uint32) Add(d uint32) uint32             { y(); return x.v.Add(d) }
func (x *Uint32) CompareAndSwap(o, n uint32) bool { y(); return x.v.CompareAndSwap(o, n) }

type Uint64 struct{ v atomic.Uint64 }

func (x *Uint64) Load() uint64                    { y(); return x.v.Load() }
func (x *Uint64) Store(v uint64)                  { y(); x.v.Store(v) }
func (x *Uint64) Swap(v uint64) uint64            { y(); return x.v.Swap(v) }
func (x *Uint64) Add(d uint64) uint64             { y(); return x.v.Add(d) }
func (x *Uint64) CompareAndSwap(o, n uint64) bool { y(); return x.v.CompareAndSwap(o, n) }

type Value struct{ v atomic.Value }

func (x *Value) Load() any                  { y(); return x.v.Load() }
func (x *Value) Store(v any)                { y(); x.v.Store(v) }
func (x *Value) Swap(v any) any             { y(); return x.v.Swap(v) }
func (x *Value) CompareAndSwap(o, n any) bool { y(); return x.v.CompareAndSwap(o, n) }

type Pointer[T any] struct{ v atomic.Pointer[T] }

func (x *Pointer[T]) Load() *T                    { y(); return x.v.Load() }
func (x *Pointer[T]) Store(v *T)                  { y(); x.v.Store(v) }
func (x *Pointer[T]) Swap(v *T) *T                { y(); return x.v.Swap(v) }
func (x *Pointer[T]) CompareAndSwap(o, n *T) bool { y(); return x.v.CompareAndSwap(o, n) }
