package world

import (
	"context"
	"encoding/hex"
	"fmt"
	"strings"
	"time"

	"github.com/relab/gorums"
	"google.golang.org/protobuf/proto"
	"google.golang.org/protobuf/types/known/emptypb"

	"gorumsim/simrt"
	"gorumsim/zsvc"
)

var stubByName = func() map[string]StubInfo {
	m := map[string]StubInfo{}
	for _, s := range Stubs {
		m[s.Name] = s
	}
	return m
}()

func (w *World) runThread(ti int, th *Thread) {
	m := w.mgrs[th.Mgr]
	simrt.Gate("thread-start", func() bool { return m.readyA.Load() })
	if w.Cfg.FreeTasks {
		// race-detector runs: the threads of a manager wake up from polling at different (fake)
		// instants, i.e. in different quiescence epochs, and would then never run at the same time;
		// let them start together. (The barrier orders what came before it, not what follows.)
		w.barrier(fmt.Sprintf("start/%d", th.Mgr), w.threadsOf(th.Mgr))
	}
	defer func() {
		if r := recover(); r != nil {
			simrt.RecordPanic(r)
		}
		w.mu.Lock()
		w.threadsDone++
		w.mu.Unlock()
		w.ev("thread-done", "thread=%d", ti)
	}()
	made := map[int]*Call{}
	for oi, op := range th.Ops {
		switch op.Kind {
		case "call":
			simrt.Yield("op:call")
			made[oi] = w.doCall(m, ti, oi, op)
			if c := made[oi]; c != nil && op.CancelAfter && c.cancel != nil && c.ReturnSeq != 0 {
				switch {
				case c.Info.Kind == "rpc", c.Info.Kind == "qc", (c.Info.Kind == "mcast" || c.Info.Kind == "ucast") && !op.NoSendWait:
					w.cancelAfterReturn(c)
				}
			}
		case "get":
			simrt.Yield("op:get")
			if c := made[op.Ref]; c != nil {
				w.doGet(c)
			}
		case "wait":
			simrt.Yield("op:wait")
			if c := made[op.Ref]; c != nil {
				w.doWait(c)
			}
		case "close":
			simrt.Yield("op:close")
			w.doClose(m, op.N)
		case "pause":
			simrt.Yield("op:pause")
		case "barrier":
			if w.Cfg.FreeTasks {
				w.barrier(fmt.Sprintf("op/%d/%d", th.Mgr, op.Cfg), op.N)
			}
		case "cfgstorm":
			// derive configurations from the most recently derived ones (which other threads are
			// using as operands at the same time), with every operation of the algebra
			simrt.Yield("op:cfgstorm")
			kinds := []string{"and", "newnodes", "except", "and", "without", "ids"}
			for k := 0; k < op.N; k++ {
				w.mu.Lock()
				n := len(m.cfgs)
				w.mu.Unlock()
				w.doNewCfg(m, &Op{Kind: "newcfg", Stub: kinds[(k+op.Cfg)%len(kinds)], Cfg: max(0, n-1-k%2), N: 1 + k%3})
			}
		case "newcfg":
			simrt.Yield("op:newcfg")
			for k := 0; k < 1+9*b2i(w.Cfg.FreeTasks); k++ {
				w.doNewCfg(m, op)
			}
		case "inspect-loop":
			for k := 0; k < op.N; k++ {
				w.doInspect(m, &Op{Cfg: op.Cfg, N: k})
				time.Sleep(time.Duration(1+k%7) * time.Millisecond)
			}
		case "inspect":
			simrt.Yield("op:inspect")
			for k := 0; k < 1+29*b2i(w.Cfg.FreeTasks); k++ {
				w.doInspect(m, op)
			}
		}
	}
}

func (c *Call) perNodeFn() func(*zsvc.Request, uint32) *zsvc.Request {
	spec := c.Op.PerNode
	return func(in *zsvc.Request, id uint32) *zsvc.Request {
		if spec == nil {
			return in
		}
		si, ok := c.nodeSrv[id]
		if !ok {
			return in
		}
		for _, s := range spec.Skip {
			if s == si {
				return nil
			}
		}
		for _, s := range spec.Empty {
			if s == si {
				return &zsvc.Request{}
			}
		}
		if spec.Distinct {
			r := &zsvc.Request{Value: distinctVal(in.GetValue(), id)}
			r.ProtoReflect().SetUnknown(in.ProtoReflect().GetUnknown())
			return r
		}
		return in
	}
}

func (w *World) newCall(m *Mgr, ti, oi int, op *Op) *Call {
	info := stubByName[op.Stub]
	c := &Call{Stub: op.Stub, Info: info, Mgr: m.Idx, Thread: ti, OpIdx: oi, Op: op, CfgIdx: op.Cfg, CtxKind: op.Ctx, Expect: map[int]string{}, nodeSrv: m.nodeSrv}
	w.mu.Lock()
	c.Tok = len(w.calls)
	w.calls = append(w.calls, c)
	if m.closed && m.CloseSeq != 0 {
		c.PostClose = true
	}
	w.mu.Unlock()
	c.ReqVal = fmt.Sprintf("t%d", c.Tok)
	if op.PadKB > 0 {
		c.ReqVal += "~" + strings.Repeat("x", op.PadKB*1024)
	}
	if info.ReqEmpty {
		c.Req = &emptypb.Empty{}
		c.ReqVal = ""
	} else {
		r := &zsvc.Request{Value: c.ReqVal}
		if w.Cfg.Profile == "C13" {
			r.ProtoReflect().SetUnknown(unknownFor(uint64(c.Tok)))
			c.reqSuffix = "#u" + hex.EncodeToString(unknownFor(uint64(c.Tok)))
		}
		c.Req = r
	}
	switch info.Kind {
	case "rpc", "ucast":
		c.Members = []int{op.Node}
	default:
		if cr := w.cfgOf(m, op.Cfg); cr != nil {
			c.Members = append([]int(nil), cr.Servers...)
		}
	}
	for _, si := range c.Members {
		skip := false
		val := c.ReqVal
		if info.PerNode && op.PerNode != nil {
			for _, s := range op.PerNode.Skip {
				if s == si {
					skip = true
				}
			}
			if op.PerNode.Distinct {
				val = distinctVal(c.ReqVal, nodeID(si))
			}
			for _, s := range op.PerNode.Empty {
				if s == si {
					val = emptyPayload
				}
			}
		}
		if !skip {
			c.Targets = append(c.Targets, si)
			if val == emptyPayload {
				c.Expect[si] = emptyPayload
			} else {
				c.Expect[si] = val + c.reqSuffix
			}
		}
	}
	w.mu.Lock()
	w.byReq[c.Req] = c
	w.mu.Unlock()
	switch op.Ctx {
	case "cancel":
		c.ctx, c.cancel = context.WithCancel(context.Background())
		w.addCancel(c)
	case "deadline":
		c.ctx, c.cancel = context.WithTimeout(context.Background(), time.Duration(op.DeadlineMs)*time.Millisecond+71*time.Microsecond+time.Duration(13*c.Tok))
		cc := c
		context.AfterFunc(c.ctx, func() { w.ctxEnded(cc, "deadline") })
	default:
		c.ctx = context.Background()
	}
	return c
}

// ctxEnded records the end of a call's context (first cause wins).
func (w *World) ctxEnded(c *Call, why string) {
	w.mu.Lock()
	if c.CtxEndSeq == 0 {
		c.CtxEndSeq = w.nextSeq()
		c.CtxEndStep = w.step
		w.events = append(w.events, Event{Seq: c.CtxEndSeq, Step: w.step, Kind: "ctx-end", Attr: fmt.Sprintf("tok=%d why=%s", c.Tok, why)})
	}
	w.mu.Unlock()
}

// emptyPayload marks a node whose per-node message is a valid all-default message: the handler
// sees an empty value, so the delivery cannot be attributed to the call by its token.
const emptyPayload = "\x00empty"

// threadsOf counts the threads of manager mi.
func (w *World) threadsOf(mi int) int {
	n := 0
	for _, th := range w.Prog.Threads {
		if th.Mgr == mi {
			n++
		}
	}
	return n
}

// barrier blocks until n tasks have arrived at the barrier named key (free-task mode only).
func (w *World) barrier(key string, n int) {
	w.mu.Lock()
	if w.barriers == nil {
		w.barriers = map[string]*barrierRec{}
	}
	b := w.barriers[key]
	if b == nil {
		b = &barrierRec{ch: make(chan struct{})}
		w.barriers[key] = b
	}
	b.n++
	if b.n == n {
		close(b.ch)
	}
	ch := b.ch
	w.mu.Unlock()
	select {
	case <-ch:
	case <-time.After(10 * time.Second): // (fake time) a sibling never arrived: go on alone
	}
}

type barrierRec struct {
	n  int
	ch chan struct{}
}

// cancelAfterReturn cancels the context of a call whose stub has returned (defer cancel()).
func (w *World) cancelAfterReturn(c *Call) {
	w.mu.Lock()
	for _, ca := range w.cancels {
		if ca.c == c {
			if ca.fired {
				w.mu.Unlock()
				return
			}
			ca.fired = true
		}
	}
	w.mu.Unlock()
	w.ctxEnded(c, "cancel-after-return")
	c.cancel()
	w.probe("cancel-after-return")
}

// syncCtx records the end of the call's context if the context has ended but the (asynchronous)
// AfterFunc that normally records it has not run yet: what justifies a context error is that the
// context had ended when the outcome was produced, not which of two goroutines woken by the same
// deadline got to the event log first.
func (w *World) syncCtx(c *Call) {
	if c.ctx != nil && c.ctx.Err() != nil {
		why := "deadline"
		if c.CtxKind == "cancel" {
			why = "cancel"
		}
		w.ctxEnded(c, why)
	}
}

func (w *World) doCall(m *Mgr, ti, oi int, op *Op) *Call {
	c := w.newCall(m, ti, oi, op)
	var cfg *zsvc.Configuration
	var node *zsvc.Node
	switch c.Info.Kind {
	case "rpc", "ucast":
		node = w.nodeOf(m, op.Node)
		if node == nil {
			w.note("no node for server %d on manager %s", op.Node, m.Name)
			return nil
		}
	default:
		cr := w.cfgOf(m, op.Cfg)
		if cr == nil {
			return nil
		}
		cfg = cr.cfg
	}
	var opts []gorums.CallOption
	if op.NoSendWait {
		opts = append(opts, gorums.WithNoSendWaiting())
	}
	if op.Ctx != "bg" {
		// the context exists: it may end before the call is even made
		simrt.Yield("op:pre-invoke")
	}
	w.mu.Lock()
	if op.FreezeClock && w.phase == "main" {
		w.freeze = c
	}
	c.InvokeSeq = w.nextSeq()
	c.InvokeStep = w.step
	w.events = append(w.events, Event{Seq: c.InvokeSeq, Step: w.step, Task: simrt.SelfName(), Kind: "invoke", Attr: fmt.Sprintf("tok=%d stub=%s mgr=%d targets=%v ctx=%s", c.Tok, c.Stub, m.Idx, c.Targets, op.Ctx)})
	w.mu.Unlock()
	func() {
		defer func() {
			if r := recover(); r != nil {
				c.Panic = fmt.Sprint(r)
				simrt.RecordPanic(r)
			}
		}()
		c.res = invokeStub(c.ctx, cfg, node, c, c.Req, opts)
	}()
	w.syncCtx(c)
	if op.FreezeClock {
		w.mu.Lock()
		frozen := w.freeze == c
		w.mu.Unlock()
		if frozen {
			w.rule("C06.no-send-waiting-needs-no-timer", true)
		}
	}
	w.mu.Lock()
	c.ReturnSeq = w.nextSeq()
	c.ReturnStep = w.step
	if c.res.has {
		c.HasRes, c.Ret, c.Err = true, c.res.ret, c.res.err
		if c.Err != nil {
			c.ErrText = c.Err.Error()
		}
	}
	switch c.Info.Kind {
	case "rpc", "qc", "mcast", "ucast":
		c.DoneSeq, c.DoneStep = c.ReturnSeq, c.ReturnStep
	}
	rpcRet, _ := c.Ret.(*zsvc.Response)
	w.events = append(w.events, Event{Seq: c.ReturnSeq, Step: w.step, Task: simrt.SelfName(), Kind: "return", Attr: fmt.Sprintf("tok=%d err=%q panic=%q", c.Tok, firstLine(c.ErrText), c.Panic)})
	w.mu.Unlock()
	if c.Info.Kind == "rpc" && rpcRet != nil {
		checkReplyUnknown(rpcRet)
	}
	if c.Panic != "" {
		return c
	}
	switch c.Info.Kind {
	case "async":
		// a completion watcher observes the future (Done must become true, Get must return)
		fut := c.res
		simrt.GoNamed(fmt.Sprintf("c%d/t%d/fut%d", m.Idx, ti, c.Tok), "future-watcher", func() {
			w.mu.Lock()
			c.getsStarted++
			w.mu.Unlock()
			r, err := fut.future()
			w.syncCtx(c)
			w.mu.Lock()
			c.Gets = append(c.Gets, getResult{Seq: w.nextSeq(), Ret: r, Err: err})
			if c.DoneSeq == 0 {
				c.DoneSeq, c.DoneStep = c.Gets[len(c.Gets)-1].Seq, w.step
				c.HasRes, c.Ret, c.Err = true, r, err
				if err != nil {
					c.ErrText = err.Error()
				}
			}
			w.events = append(w.events, Event{Seq: c.DoneSeq, Step: w.step, Kind: "future-done", Attr: fmt.Sprintf("tok=%d err=%q", c.Tok, firstLine(c.ErrText))})
			w.mu.Unlock()
			if !fut.done() {
				w.violate("C02", "future-done-false", "", "call t%d: Done() reported false after Get returned", c.Tok)
			}
		})
		if fut.done() {
			w.probe("future-done-at-return")
		}
	case "corr", "cstream":
		w.startObservers(m, ti, c)
	}
	return c
}

// distinctVal derives the per-node payload "t<tok>/n<id>[~padding]" from "t<tok>[~padding]".
func distinctVal(v string, id uint32) string {
	pad := ""
	if i := strings.IndexByte(v, '~'); i >= 0 {
		v, pad = v[:i], v[i:]
	}
	return fmt.Sprintf("%s/n%d%s", v, id, pad)
}

func firstLine(s string) string {
	for i := 0; i < len(s); i++ {
		if s[i] == '\n' {
			return s[:i]
		}
	}
	return s
}

// doGet calls Get on an async future from the thread itself.
func (w *World) doGet(c *Call) {
	if c.res.future == nil {
		return
	}
	before := c.res.done()
	w.mu.Lock()
	c.getsStarted++
	w.mu.Unlock()
	r, err := c.res.future()
	w.mu.Lock()
	c.Gets = append(c.Gets, getResult{Seq: w.nextSeq(), Ret: r, Err: err})
	w.mu.Unlock()
	_ = before
	if !c.res.done() {
		w.violate("C02", "future-done-false", "", "call t%d: Done() reported false after Get returned", c.Tok)
	}
}

// doWait waits for a correctable to complete.
func (w *World) doWait(c *Call) {
	if c.res.corr == nil {
		return
	}
	<-c.res.corr.Done()
}

func (w *World) doClose(m *Mgr, n int) {
	if n < 1 {
		n = 1
	}
	simrt.Gate("close:wait-ready", func() bool { return m.readyA.Load() })
	w.ev("close-invoke", "mgr=%d n=%d", m.Idx, n)
	w.mu.Lock()
	if !m.closed {
		m.closeInvokedAt = w.elapsed()
	}
	m.closed = true
	w.mu.Unlock()
	done := make(chan struct{}, n)
	for i := 1; i < n; i++ {
		simrt.GoNamed(fmt.Sprintf("c%d/closer%d", m.Idx, i), "closer", func() {
			defer func() {
				if r := recover(); r != nil {
					simrt.RecordPanic(r)
				}
				done <- struct{}{}
			}()
			m.mgr.Close()
		})
	}
	func() {
		defer func() {
			if r := recover(); r != nil {
				simrt.RecordPanic(r)
			}
		}()
		m.mgr.Close()
	}()
	for i := 1; i < n; i++ {
		<-done
	}
	s := w.ev("close-return", "mgr=%d", m.Idx)
	w.mu.Lock()
	m.CloseSeq = s
	w.mu.Unlock()
}

// ---------------------------------------------------------------- correctable observers

func (w *World) startObservers(m *Mgr, ti int, c *Call) {
	corr := c.res.corr
	typed := c.res.typedGet
	record := func(o Observation) {
		w.mu.Lock()
		c.Observed = append(c.Observed, o)
		w.mu.Unlock()
	}
	sample := func(kind string, watched int, inv uint64) {
		o := Observation{InvSeq: inv, Kind: kind}
		func() {
			defer func() {
				if r := recover(); r != nil {
					o.Panic = fmt.Sprint(r)
				}
			}()
			r, l, err := typed()
			o.Ret, o.Level, o.Err = r, l, err
		}()
		if kind == "watch-closed" {
			o.WatchLevel = watched
		}
		w.mu.Lock()
		o.RetSeq = w.nextSeq()
		w.mu.Unlock()
		record(o)
	}
	// completion watcher: always present
	simrt.GoNamed(fmt.Sprintf("c%d/t%d/corr%d/done", m.Idx, ti, c.Tok), "observer", func() {
		<-corr.Done()
		w.syncCtx(c)
		w.mu.Lock()
		inv := w.nextSeq()
		if c.DoneSeq == 0 {
			c.DoneSeq, c.DoneStep = inv, w.step
		}
		w.events = append(w.events, Event{Seq: inv, Step: w.step, Kind: "corr-done", Attr: fmt.Sprintf("tok=%d", c.Tok)})
		w.mu.Unlock()
		sample("done-closed", 0, inv)
	})
	for i, ob := range c.Op.Observers {
		ob := ob
		name := fmt.Sprintf("c%d/t%d/corr%d/obs%d", m.Idx, ti, c.Tok, i)
		switch ob.Kind {
		case "get":
			simrt.GoNamed(name, "observer", func() {
				n := ob.N
				if n < 1 {
					n = 1
				}
				for j := 0; j < n; j++ {
					simrt.Yield("obs:get")
					w.mu.Lock()
					inv := w.nextSeq()
					w.mu.Unlock()
					sample("get", 0, inv)
				}
			})
		case "watch":
			simrt.GoNamed(name, "observer", func() {
				simrt.Yield("obs:watch")
				w.mu.Lock()
				inv := w.nextSeq()
				w.mu.Unlock()
				ch := corr.Watch(ob.Level)
				w.mu.Lock()
				c.watchStarted = append(c.watchStarted, ob.Level)
				w.mu.Unlock()
				<-ch
				sample("watch-closed", ob.Level, inv)
			})
		}
	}
}

var _ proto.Message

// doNewCfg builds a further configuration from existing ones (And / Except / WithoutNodes /
// WithNodeIDs / WithNewNodes), concurrently with whatever else is going on.
func (w *World) doNewCfg(m *Mgr, op *Op) {
	defer func() {
		if r := recover(); r != nil {
			simrt.RecordPanic(r)
		}
	}()
	var a, b *zsvc.Configuration
	w.mu.Lock()
	var live []*CfgRec
	for _, c := range m.cfgs {
		if c != nil {
			live = append(live, c)
		}
	}
	w.mu.Unlock()
	if len(live) == 0 {
		return
	}
	a = live[op.Cfg%len(live)].cfg
	b = live[(op.Cfg+op.N)%len(live)].cfg
	var opt gorums.NodeListOption
	switch op.Stub {
	case "and":
		opt = a.And(b)
	case "except":
		opt = a.Except(b)
	case "without":
		ids := a.NodeIDs()
		if len(ids) > 1 {
			opt = a.WithoutNodes(ids[0])
		} else {
			opt = a.And(b)
		}
	case "ids":
		opt = gorums.WithNodeIDs(a.NodeIDs())
	default:
		// also brings in servers the manager does not know yet (the node pool grows and is re-sorted)
		nm := map[string]uint32{}
		for si := 0; si < w.Cfg.NServers; si++ {
			nm[addrOf(si)] = nodeID(si)
		}
		opt = a.WithNewNodes(gorums.WithNodeMap(nm))
	}
	cfg, err := m.mgr.NewConfiguration(m.qspec, opt)
	if err != nil || cfg == nil {
		return
	}
	var srvs []int
	for _, id := range cfg.NodeIDs() {
		srvs = append(srvs, m.nodeSrv[id])
	}
	w.mu.Lock()
	m.cfgs = append(m.cfgs, &CfgRec{cfg: cfg, Servers: srvs})
	w.mu.Unlock()
}

// doInspect reads manager, configuration and node state through the public accessors.
func (w *World) doInspect(m *Mgr, op *Op) {
	defer func() {
		if r := recover(); r != nil {
			simrt.RecordPanic(r)
		}
	}()
	_ = m.mgr.NodeIDs()
	_ = m.mgr.Size()
	nodes := m.mgr.Nodes()
	for _, n := range nodes {
		_ = n.ID()
		_ = n.Address()
		_ = n.LastErr()
		_ = n.Latency()
		_ = n.FullString()
	}
	raw := append([]*gorums.RawNode(nil), m.mgr.RawManager.Nodes()...)
	switch op.N % 3 {
	case 0:
		gorums.OrderedBy(gorums.LastNodeError, gorums.ID).Sort(raw)
	case 1:
		gorums.OrderedBy(gorums.Port).Sort(raw)
	}
	w.mu.Lock()
	var c *CfgRec
	if len(m.cfgs) > 0 {
		c = m.cfgs[op.Cfg%len(m.cfgs)]
	}
	w.mu.Unlock()
	if c != nil {
		_ = c.cfg.NodeIDs()
		_ = c.cfg.Nodes()
		_ = c.cfg.Size()
	}
}

// cfgOf returns configuration i of manager m (configurations may be added concurrently).
func (w *World) cfgOf(m *Mgr, i int) *CfgRec {
	w.mu.Lock()
	defer w.mu.Unlock()
	if i < 0 || i >= len(m.cfgs) {
		return nil
	}
	return m.cfgs[i]
}

func b2i(b bool) int {
	if b {
		return 1
	}
	return 0
}
