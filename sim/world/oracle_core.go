package world

import (
	"context"
	"errors"
	"fmt"
	"regexp"
	"sort"
	"strconv"
	"strings"
	"time"

	"github.com/relab/gorums"
	"google.golang.org/protobuf/proto"

	"gorumsim/zsvc"
)

// afterMain runs the phases that follow the adversarial main phase and the
// oracles of the run's profile.
func (w *World) afterMain() {
	p := w.Cfg.Profile
	defer w.checkPanics()
	if fn, ok := profileAfterMain[p]; ok {
		fn(w)
		return
	}
	w.defaultSettle()
	w.checkCore()
}

var libFrameRe = regexp.MustCompile(`github\.com/relab/gorums\.((?:\(\*?[\w.]+\)\.)?[\w.]+)\(`)

var genFrameRe = regexp.MustCompile(`gorumsim/zsvc\.((?:\(\*?[\w.]+\)\.)?[\w.]+)\(`)

// checkPanics: a panic (or modelled fatal error) in any goroutine that runs library code
// would have crashed the process; it is reported under the property of the running profile.
func (w *World) checkPanics() {
	for _, p := range w.sched.TakePanics() {
		fn := "harness"
		if m := libFrameRe.FindStringSubmatch(p.Stack); m != nil {
			fn = m[1]
		} else if m := genFrameRe.FindStringSubmatch(p.Stack); m != nil {
			fn = "generated:" + m[1] // code emitted by the plugin is part of the library
		} else if !p.Fatal {
			// a panic without any library frame on the stack is a harness problem
			w.note("harness panic in %s: %s", p.Task, p.Value)
			w.internal = fmt.Sprintf("harness task %s panicked: %s\n%s", p.Task, p.Value, p.Stack)
			continue
		}
		prop := w.Cfg.Profile
		w.violate(prop, "library-panic", fn, "goroutine %s crashed in %s: %s", p.Task, fn, p.Value)
	}
}

var profileAfterMain = map[string]func(w *World){
	"C06": afterC06,
	"C02": afterC02,
}

// afterC02: "a quorum call ends ... on context end" - also while a targeted node's sender is busy
// (dialling a node that is down, with a blocking dial): after a fair grace phase in which nothing
// that is stuck gets unstuck (no heal, no restart, no gate opens; the clock runs), every quorum /
// async call whose context has ended has returned and completed. Then the usual settle and checks.
func afterC02(w *World) {
	w.grace("grace", false, 10*time.Second, 8000, nil)
	for _, c := range w.calls[1:] {
		if c.InvokeSeq == 0 || c.CtxEndSeq == 0 || (c.Info.Kind != "qc" && c.Info.Kind != "async") || c.Panic != "" {
			continue
		}
		done := c.ReturnSeq != 0 && c.DoneSeq != 0
		w.rule("C02.ends-on-context-end", done)
		if !done {
			where := "its future has not completed"
			if c.ReturnSeq == 0 {
				where = "it is still inside the stub invocation"
			}
			w.violate("C02", "not-ended-by-context", "", "call t%d (%s, ctx %s): %s 10 s (simulated) after its context ended at step %d, although nothing but its own context is needed for it to end: %s", c.Tok, c.Stub, c.CtxKind, where, c.CtxEndStep, w.whereIs(c))
		}
	}
	w.defaultSettle()
	w.checkCore()
}

// afterC06: one-way calls return without waiting for any handler: after a fair grace phase in
// which no handler gate opens, every unicast / multicast whose context has not ended and whose
// targets are all reachable must have returned. After the settle phase every targeted node of
// such a call has received the message exactly once.
func afterC06(w *World) {
	w.grace("grace", false, 10*time.Second, 8000, nil)
	clean := !w.anyConnFault() && w.net.Snapshot().DialTimeouts == 0 && w.net.Snapshot().Refused == 0
	for _, c := range w.calls[1:] {
		if c.InvokeSeq == 0 || (c.Info.Kind != "mcast" && c.Info.Kind != "ucast") {
			continue
		}
		if c.Panic != "" {
			w.violate("C06", "panic", "", "call t%d (%s) panicked: %s", c.Tok, c.Stub, c.Panic)
			continue
		}
		if c.CtxEndSeq != 0 || !clean || c.Op.PadKB > 0 {
			continue
		}
		ret := c.ReturnSeq != 0
		w.rule("C06.one-way-returns-without-handlers", ret)
		if !ret {
			w.violate("C06", "one-way-blocked", "", "call t%d (%s, %d targeted nodes, no-send-waiting=%v) has not returned although its context is live, every node is reachable and only server handlers are blocked: %s", c.Tok, c.Stub, len(c.Targets), c.Op.NoSendWait, w.whereIs(c))
		}
	}
	w.defaultSettle()
	w.checkCore()
	clean = !w.anyConnFault() && w.net.Snapshot().DialTimeouts == 0 && w.net.Snapshot().Refused == 0 && w.net.Snapshot().Resets == 0
	// lateOnly: every context that ended belongs to an RPC or a send-waiting one-way call and ended after the stub had
	// returned, i.e. after all its requests had been written - such a cancellation must not disturb anybody
	lateOnly := true
	for _, c := range w.calls[1:] {
		if c.InvokeSeq == 0 || c.CtxEndSeq == 0 {
			continue
		}
		// (a quorum call may return on a quorum while requests to slower nodes are still queued)
		sync := c.Info.Kind == "rpc" || ((c.Info.Kind == "mcast" || c.Info.Kind == "ucast") && !c.Op.NoSendWait)
		if !sync || c.ReturnSeq == 0 || c.CtxEndSeq < c.ReturnSeq {
			lateOnly = false
		}
	}
	if lateOnly {
		w.probe("all-context-ends-after-return")
	}
	// nodes for which the per-node function yields no message are neither waited for nor counted: in a
	// run without connection trouble, after the settle phase (every handler has returned, every gate is
	// open) all nodes that *were* sent a message have answered, so a reply-collecting call with a live
	// context whose per-node function skipped somebody must have completed - by quorum or as Incomplete
	if clean && len(w.Cfg.Down) == 0 {
		for _, c := range w.calls[1:] {
			k := c.Info.Kind
			if c.InvokeSeq == 0 || c.Op == nil || c.Op.PerNode == nil || len(c.Op.PerNode.Skip) == 0 || (k != "qc" && k != "async" && k != "corr") {
				continue
			}
			if c.CtxEndSeq != 0 || c.Panic != "" || c.PostClose || w.mgrs[c.Mgr].closed {
				continue
			}
			done := c.DoneSeq != 0
			w.rule("C06.skipped-nodes-are-not-waited-for", done)
			if !done {
				w.violate("C06", "skipped-node-waited-for", "", "call t%d (%s): the per-node function skipped servers %v, every node that was sent a message has answered, the context is live - and the call has not completed: %s", c.Tok, c.Stub, c.Op.PerNode.Skip, w.whereIs(c))
			}
		}
	}
	// all-default per-node messages: counted per (server, method); a group is judged only if every
	// call that contributes to it satisfies the preconditions of the exactly-once rule
	emptyOK, emptyAll := map[emptyKey]int{}, map[emptyKey]int{}
	for _, c := range w.calls[1:] {
		for _, si := range c.Targets {
			if c.InvokeSeq != 0 && c.Expect[si] == emptyPayload {
				emptyAll[emptyKey{si, c.Stub}]++
			}
		}
	}
	defer func() {
		for k, want := range emptyAll {
			if emptyOK[k] != want {
				continue
			}
			got := 0
			for _, h := range w.hrecs {
				if h.Srv == k.srv && h.Method == k.stub && h.ReqVal == "" && h.Tok == -1 {
					got++
				}
			}
			w.rule("C06.all-default-message-is-a-message", got == want)
			if got != want {
				w.violate("C06", "empty-message-not-delivered", "", "server %d received %d of the %d valid all-default (zero-size) messages that per-node functions of %s calls produced for it: such a message was treated as \"no message\"", k.srv, got, want, k.stub)
			}
		}
	}()
	for _, c := range w.calls[1:] {
		if c.InvokeSeq == 0 || c.ReqVal == "" || (c.Info.Kind != "mcast" && c.Info.Kind != "ucast") {
			continue
		}
		if c.CtxEndSeq != 0 || !clean || c.ReturnSeq == 0 {
			continue
		}
		for _, si := range c.Targets {
			// a cancellation that strikes while some other call's request is on its way makes
			// the library reset the node's stream, which loses messages in flight; unless every
			// context of the run ended only after its call's request had been sent (lateOnly:
			// then nothing may be reset at all), only judge nodes whose stream was never replaced
			nstreams := 0
			for _, st := range w.servers[si].allStreams {
				if st.Client == w.mgrs[c.Mgr].Name {
					nstreams++
				}
			}
			if nstreams != 1 && !lateOnly {
				continue
			}
			// ... and "reachable" means that the one connection the manager ever made to the node
			// is the one that carried the stream: a connection attempt that the client gave up
			// (the network was slower than the dial timeout) means the node was not reachable then
			nconns := 0
			for _, cn := range w.net.AllConns() {
				if cn.Client == w.mgrs[c.Mgr].Name && cn.Server == addrOf(si) {
					nconns++
				}
			}
			if nconns != 1 {
				continue
			}
			if c.Expect[si] == emptyPayload {
				emptyOK[emptyKey{si, c.Stub}]++ // judged by count below: the handler cannot see the token
				continue
			}
			n := len(w.handlersFor(c, si))
			w.rule("C06.exactly-once-when-reachable", n == 1)
			if n != 1 {
				w.violate("C06", "one-way-not-delivered", "", "call t%d (%s): node of server %d received the message %d times although it is reachable and the context was never cancelled", c.Tok, c.Stub, si, n)
			}
		}
	}
}

type emptyKey struct {
	srv  int
	stub string
}

func (w *World) horizon() time.Duration {
	h := time.Duration(float64(w.Cfg.BackoffMaxMs)*2.5)*time.Millisecond + 30*time.Second
	if w.Cfg.BackoffMaxMs == 0 {
		h = 2*time.Minute*5/2 + 30*time.Second // grpc default MaxDelay 120 s
	}
	return h
}

func (w *World) defaultSettle() {
	w.settle("settle", true, 0, w.horizon(), 20000, w.allCallsDone)
}

func (w *World) has(prop string) bool {
	return w.Cfg.Profile == prop || w.Cfg.Profile == "all"
}

var incompleteRe = regexp.MustCompile(`\(errors: (\d+), replies: (\d+)\)`)

// faultTouched reports whether a connection fault, crash or close could have affected call c.
func (w *World) anyConnFault() bool {
	for k, n := range w.faults {
		if n > 0 && k != "cancel" {
			return true
		}
	}
	return len(w.Cfg.Down) > 0
}

// handlerFor returns the handler records of call c at server si.
func (w *World) handlersFor(c *Call, si int) []*HandlerRec {
	var out []*HandlerRec
	for _, h := range w.hrecs {
		if h.Tok == c.Tok && h.Srv == si {
			out = append(out, h)
		}
	}
	return out
}

// checkCore evaluates the history oracles of C01, C02, C05 and C06 (each only
// reports under its own property and only if the profile asks for it).
func (w *World) checkCore() {
	for _, c := range w.calls[1:] {
		if c == nil || c.InvokeSeq == 0 {
			continue
		}
		w.checkCallQF(c)
		w.checkCallOutcome(c)
		w.checkDelivery(c)
	}
}

// ---- C01 / C05: quorum function invocations and returned value

// checkRPCResult (C05): the reply an RPC returns was produced by the targeted node's handler for
// this very call.
func (w *World) checkRPCResult(c *Call) {
	if c.Info.Kind != "rpc" || c.DoneSeq == 0 || c.Err != nil || c.ReqVal == "" || len(c.Targets) != 1 || c.IsProbe {
		return
	}
	r, ok := c.Ret.(*zsvc.Response)
	if !ok || r == nil {
		return
	}
	si := c.Targets[0]
	st := r.GetResult()
	sp := parseStamp(st)
	good := st > 0 && sp.Tok == c.Tok && sp.Srv == si
	if good {
		good = false
		for _, h := range w.handlersFor(c, si) {
			for _, hs := range h.Stamps {
				if hs == st {
					good = true
				}
			}
		}
	}
	w.rule("C05.reply-attributed", good)
	if !good {
		w.violate("C05", "reply-misrouted", "rpc", "call t%d (%s) to server %d returned a reply with stamp {%v}, which that node's handler did not produce for this call (token/server mismatch)", c.Tok, c.Stub, si, sp)
	}
}

func (w *World) checkCallQF(c *Call) {
	w.checkRPCResult(c)
	if c.Info.Kind != "qc" && c.Info.Kind != "async" {
		return
	}
	memberOf := map[uint32]int{}
	for _, si := range c.Targets {
		memberOf[nodeID(si)] = si
	}
	var prev map[uint32]int64
	quorumSeen := false
	for k, inv := range c.QFInv {
		id := fmt.Sprintf("call t%d (%s) QF invocation %d", c.Tok, c.Stub, k+1)
		w.rule("C01.qf-one-at-a-time", !inv.Overlap)
		if inv.Overlap {
			w.violate("C01", "qf-overlap", "", "%s overlapped an earlier invocation that had not returned", id)
		}
		w.rule("C01.qf-original-request", inv.ReqSame && inv.ReqIntact)
		if !inv.ReqSame || !inv.ReqIntact {
			w.violate("C01", "qf-request", "", "%s did not receive the caller's original request (same object: %v, unchanged: %v)", id, inv.ReqSame, inv.ReqIntact)
		}
		if quorumSeen {
			w.violate("C01", "qf-after-quorum", "", "%s happened after an earlier invocation had reported a quorum", id)
		}
		w.rule("C01.qf-never-after-quorum", !quorumSeen)
		if inv.AfterReturn {
			w.violate("C05", "qf-after-return", "", "%s happened after the call had returned", id)
		}
		// growth by exactly one, old entries unchanged
		grow := len(inv.Replies) - len(prev)
		okGrow := grow == 1
		for nid, st := range prev {
			if st2, ok := inv.Replies[nid]; !ok || st2 != st {
				okGrow = false
			}
		}
		w.rule("C01.reply-set-grows-by-one", okGrow)
		if !okGrow {
			w.violate("C01", "qf-growth", "", "%s: reply set %v does not extend the previous set %v by exactly one entry", id, inv.Replies, prev)
		}
		for nid, st := range inv.Replies {
			si, member := memberOf[nid]
			if !member {
				w.violate("C05", "reply-foreign-node", "", "%s: reply filed under node %d which the call did not target", id, nid)
				w.violate("C01", "qf-genuine", "foreign-node", "%s: reply filed under node %d which the call did not target", id, nid)
				continue
			}
			if c.Info.RespEmpty {
				if st == -1 {
					w.violate("C01", "qf-genuine", "nil-reply", "%s: nil reply under node %d", id, nid)
				}
				// Empty replies carry no stamp: only check that the node answered successfully
				ok := false
				for _, h := range w.handlersFor(c, si) {
					if h.ReturnSeq != 0 && h.ErrCode == 0 && h.ReturnSeq < inv.Seq {
						ok = true
					}
				}
				if c.ReqVal != "" {
					w.rule("C01.reply-genuine", ok)
					if !ok {
						w.violate("C01", "qf-genuine", "", "%s: entry for node %d although that node's handler has not successfully answered this call", id, nid)
					}
				}
				continue
			}
			if c.ReqVal == "" {
				// Empty request: the server cannot stamp with the token; check the node only
				sp := parseStamp(st)
				if sp.Srv != si {
					w.violate("C05", "reply-wrong-node", "", "%s: reply stamped by server %d filed under node %d (server %d)", id, sp.Srv, nid, si)
				}
				continue
			}
			sp := parseStamp(st)
			good := st > 0 && sp.Tok == c.Tok && sp.Srv == si
			if good {
				found := false
				for _, h := range w.handlersFor(c, si) {
					for _, hs := range h.Stamps {
						if hs == st {
							found = true
						}
					}
				}
				good = found
			}
			w.rule("C01.reply-genuine", good)
			w.rule("C05.reply-attributed", good)
			if !good {
				w.violate("C01", "qf-genuine", "", "%s: entry for node %d (server %d) holds stamp {%v}, which that node's handler did not produce for this call", id, nid, si, sp)
				w.violate("C05", "reply-misrouted", "", "%s: entry for node %d (server %d) holds stamp {%v} (token/server mismatch)", id, nid, si, sp)
			}
			// never an entry for a node that failed
			for _, h := range w.handlersFor(c, si) {
				if h.ErrCode != 0 && len(h.Stamps) == 0 {
					w.violate("C01", "qf-failed-node", "", "%s: entry for node %d whose handler returned an error", id, nid)
				}
			}
		}
		prev = inv.Replies
		if inv.Quorum {
			quorumSeen = true
		}
	}
	// outcome vs verdicts
	if c.DoneSeq == 0 || !c.HasRes {
		return
	}
	if c.Err != nil {
		// at most one answer per node: no node is listed twice, and none that also replied
		seen := map[uint32]int{}
		for _, e := range parseNodeErrors(c.ErrText) {
			seen[e.ID]++
		}
		// an error reaches only the call whose request caused it: a node that reports a bare context
		// error reports the end of *that request's* context - if this call's context had not ended
		// when the call completed, the error belongs to somebody else's request
		ended := c.CtxEndSeq != 0 && c.CtxEndSeq < c.DoneSeq
		for _, e := range parseNodeErrors(c.ErrText) {
			if e.Text != context.Canceled.Error() && e.Text != context.DeadlineExceeded.Error() {
				continue
			}
			w.rule("C05.error-attributed", ended)
			if !ended {
				w.violate("C05", "error-misrouted", "", "call t%d (%s, ctx %s): node %d reported %q although this call's context had not ended - the error of another call's request", c.Tok, c.Stub, c.CtxKind, e.ID, e.Text)
			}
		}
		var lastSet map[uint32]int64
		if n := len(c.QFInv); n > 0 {
			lastSet = c.QFInv[n-1].Replies
		}
		for id, n := range seen {
			_, replied := lastSet[id]
			ok := n == 1 && !replied
			w.rule("C05.at-most-one-answer-per-node", ok)
			if !ok {
				w.violate("C05", "duplicate-answer", "", "call t%d (%s): node %d delivered %d errors (and a reply: %v) to one non-streaming call", c.Tok, c.Stub, id, n, replied)
			}
		}
	}
	var last *QFInvocation
	if n := len(c.QFInv); n > 0 {
		last = c.QFInv[n-1]
	}
	if c.Err == nil {
		ok := last != nil && last.Quorum && sameMsg(c.Ret, last.Ret)
		w.rule("C01.success-is-qf-verdict", ok)
		if !ok {
			switch {
			case last == nil:
				w.violate("C01", "success-without-qf", "", "call t%d (%s) succeeded although its quorum function was never invoked", c.Tok, c.Stub)
			case !last.Quorum:
				w.violate("C01", "success-without-quorum", "", "call t%d (%s) succeeded although its last quorum function invocation reported no quorum", c.Tok, c.Stub)
			default:
				w.violate("C01", "wrong-value", "", "call t%d (%s) returned %v, not the value %v its quorum function returned with the quorum", c.Tok, c.Stub, descr(c.Ret), descr(last.Ret))
			}
		}
	} else {
		ok := last == nil || !last.Quorum
		w.rule("C01.failure-means-no-quorum", ok)
		if !ok && !errors.Is(c.Err, context.Canceled) && !errors.Is(c.Err, context.DeadlineExceeded) {
			w.violate("C01", "quorum-ignored", "", "call t%d (%s) failed with %q although its quorum function reported a quorum", c.Tok, c.Stub, firstLine(c.ErrText))
		}
		if c.Ret != nil {
			w.violate("C01", "value-with-error", "", "call t%d (%s) returned a non-nil value together with error %q", c.Tok, c.Stub, firstLine(c.ErrText))
		}
	}
}

func sameMsg(a, b proto.Message) bool {
	if a == nil || b == nil {
		return a == nil && b == nil
	}
	return a == b
}

func descr(m proto.Message) string {
	switch x := m.(type) {
	case nil:
		return "<nil>"
	case *zsvc.Response:
		if x.GetResult() < 0 {
			v := -x.GetResult()
			return fmt.Sprintf("Response{qf t%d #%d}@%p", v>>16, v&0xffff, x)
		}
		return fmt.Sprintf("Response{%v}@%p", parseStamp(x.GetResult()), x)
	case *zsvc.MyResponse:
		return fmt.Sprintf("MyResponse{%s}@%p", x.GetValue(), x)
	}
	return fmt.Sprintf("%T@%p", m, m)
}

// ---- C02: outcome is exactly quorum / Incomplete / context error, and liveness

// answered reports whether server si has answered call c in a way that reached the client:
// a successful reply counted by the QF, or an error. Conservative approximation from the
// outside: the handler returned (reply or error) - used only for liveness after settle.
func (w *World) checkCallOutcome(c *Call) {
	if c.Info.Kind != "qc" && c.Info.Kind != "async" {
		return
	}
	if c.Panic != "" {
		w.violate("C02", "panic", "", "call t%d (%s) panicked: %s", c.Tok, c.Stub, c.Panic)
		return
	}
	if c.DoneSeq == 0 {
		// liveness: after settle every call for which one of the three conditions holds must have ended
		if c.PostClose || w.mgrs[c.Mgr].closed {
			return // C12's business
		}
		if c.ReqVal == "" {
			return // Empty request: handlers cannot be attributed to the call, not judged
		}
		key := w.classifyPending(c)
		prop := pendingOwner(key)
		if wk := w.wedgeKey(); wk != "unclassified" {
			// a recognisable root cause is a better class than the set of node states
			key = wk
		}
		if prop == "C02" {
			w.rule("C02.terminates", false)
		}
		if prop != "" {
			w.violate(prop, "no-outcome", key, "call t%d (%s, ctx %s, %d targeted nodes) has not returned by the end of the settle phase: %s", c.Tok, c.Stub, c.CtxKind, len(c.Targets), w.explainPending(c))
		} else {
			w.note("call t%d (%s) pending at the end of settle: %s", c.Tok, c.Stub, key)
		}
		return
	}
	w.rule("C02.terminates", true)
	if !c.HasRes {
		return
	}
	var last *QFInvocation
	if n := len(c.QFInv); n > 0 {
		last = c.QFInv[n-1]
	}
	switch {
	case c.Err == nil:
		// justified by C01's success rule; what C02 adds: success comes with the *first* reply for
		// which the quorum function reports a quorum. For a plan "k replies" (from whichever nodes)
		// that is the k-th reply, so the reply set of the deciding invocation has exactly k entries.
		if spec := c.Op.QF; spec != nil && last != nil && spec.NeedServer < 0 && spec.Threshold > 0 && spec.DoneAt == 0 && (c.Info.Kind == "qc" || c.Info.Kind == "async") {
			ok := len(last.Replies) == spec.Threshold
			w.rule("C02.success-at-first-quorum", ok)
			if !ok {
				w.violate("C02", "success-not-at-first-quorum", "", "call t%d (%s) succeeded on a reply set of %d replies although its quorum function reports a quorum for %d replies: the call did not end with the first reply that gave a quorum", c.Tok, c.Stub, len(last.Replies), spec.Threshold)
			}
		}
	case errors.Is(c.Err, gorums.Incomplete):
		quorum := false
		for _, inv := range c.QFInv {
			if inv.Quorum {
				quorum = true
			}
		}
		nrep := 0
		if last != nil {
			nrep = len(last.Replies)
		}
		m := incompleteRe.FindStringSubmatch(c.ErrText)
		ok := m != nil
		var e, r int
		if ok {
			e, _ = strconv.Atoi(m[1])
			r, _ = strconv.Atoi(m[2])
			ok = e+r == len(c.Targets) && r == nrep
		}
		w.rule("C02.incomplete-accounting", ok)
		if !ok {
			w.violate("C02", "incomplete-accounting", "", "call t%d (%s): Incomplete reports errors=%d replies=%d for %d targeted nodes (quorum function last saw %d replies): %q", c.Tok, c.Stub, e, r, len(c.Targets), nrep, firstLine(c.ErrText))
		}
		if spec := c.Op.QF; ok && !quorum && spec != nil && spec.NeedServer < 0 && spec.Threshold > 0 && spec.DoneAt == 0 && (c.Info.Kind == "qc" || c.Info.Kind == "async") {
			// r replies arrived one after the other; the Threshold-th of them gave a quorum
			missed := r >= spec.Threshold
			w.rule("C02.no-quorum-missed", !missed)
			if missed {
				w.violate("C02", "quorum-missed", "", "call t%d (%s) returned Incomplete with %d replies although its quorum function reports a quorum for a reply set of %d replies, which the %d-th reply completed", c.Tok, c.Stub, r, spec.Threshold, spec.Threshold)
			}
		}
		if quorum {
			w.violate("C02", "incomplete-despite-quorum", "", "call t%d (%s) returned Incomplete although its quorum function had reported a quorum", c.Tok, c.Stub)
		}
	case errors.Is(c.Err, context.Canceled), errors.Is(c.Err, context.DeadlineExceeded):
		ended := c.CtxEndSeq != 0 && c.CtxEndSeq < c.DoneSeq
		match := c.ctx != nil && c.ctx.Err() != nil && errors.Is(c.Err, c.ctx.Err())
		w.rule("C02.ctx-error-justified", ended && match)
		if !ended {
			w.violate("C02", "ctx-error-unjustified", "", "call t%d (%s) returned %q although its context had not ended", c.Tok, c.Stub, firstLine(c.ErrText))
		} else if !match {
			w.violate("C02", "ctx-error-mismatch", "", "call t%d (%s) returned %q which does not match its context's error %v", c.Tok, c.Stub, firstLine(c.ErrText), c.ctx.Err())
		}
	default:
		w.violate("C02", "other-outcome", "", "call t%d (%s) ended with %q, which is neither success, Incomplete nor the context's error", c.Tok, c.Stub, firstLine(c.ErrText))
	}
	// futures: every Get on a completed future returns, and all Get results are identical
	if c.Info.Kind == "async" {
		if c.getsStarted > len(c.Gets) {
			w.rule("C02.get-returns", false)
			w.violate("C02", "get-blocked", "", "call t%d (%s): the future is complete but %d of %d Get invocations have not returned", c.Tok, c.Stub, c.getsStarted-len(c.Gets), c.getsStarted)
		} else if c.getsStarted > 0 {
			w.rule("C02.get-returns", true)
		}
		for _, g := range c.Gets {
			same := sameMsg(g.Ret, c.Ret) && fmt.Sprint(g.Err) == fmt.Sprint(c.Err)
			w.rule("C02.get-stable", same)
			if !same {
				w.violate("C02", "get-unstable", "", "call t%d (%s): Get returned (%v, %v) and (%v, %v) on different invocations", c.Tok, c.Stub, descr(c.Ret), c.Err, descr(g.Ret), g.Err)
			}
		}
	}
}

// latestStream returns the newest server-side stream of manager client on server si.
func (w *World) latestStream(client string, si int) *StreamRec {
	var last *StreamRec
	for _, st := range w.servers[si].allStreams {
		if st.Client == client {
			last = st
		}
	}
	return last
}

// classifyPending names the situation of a call that has not ended: the sorted set of the
// states of its nodes that are not in the last reply set. It is the violation key, so that
// known findings match one specific failure pattern only.
func (w *World) classifyPending(c *Call) string {
	if len(c.Targets) == 0 {
		return "zero-targets"
	}
	seen := map[uint32]bool{}
	if n := len(c.QFInv); n > 0 {
		for id := range c.QFInv[n-1].Replies {
			seen[id] = true
		}
	}
	client := w.mgrs[c.Mgr].Name
	set := map[string]bool{}
	for _, si := range c.Targets {
		if seen[nodeID(si)] {
			continue
		}
		st := "never-entered"
		if !w.servers[si].Up {
			st = "server-down"
		}
		for _, h := range w.handlersFor(c, si) {
			cur := w.latestStream(client, si)
			switch {
			case !w.servers[si].Up:
				st = "server-down"
			case w.touched(si):
				st = "connection-fault"
			case h.Inc != w.servers[si].Inc:
				st = "old-incarnation"
			case cur != nil && cur != h.Stream:
				st = "handled-on-replaced-stream"
			case h.ReturnSeq == 0:
				st = "handler-running"
			case h.ErrCode != 0:
				st = "handler-error-not-delivered"
			default:
				st = "reply-not-delivered"
			}
		}
		set[st] = true
	}
	var ks []string
	for k := range set {
		ks = append(ks, k)
	}
	sort.Strings(ks)
	if len(ks) == 0 {
		return "all-replies-seen"
	}
	return strings.Join(ks, "+")
}

// pendingOwner decides which property a call that never ended violates, from the states
// of its unanswered nodes: C02 only when every targeted node has answered over a stream that
// is still the current one (so one of C02's three conditions holds); C07 when an unanswered
// node's stream, connection or server broke (the call must then be completed with an error for
// that node); nobody here when the request never reached a reachable server (a disabled node
// is C09's verdict, taken by probes) or a handler still runs.
func pendingOwner(key string) string {
	owner := "C02"
	for _, st := range strings.Split(key, "+") {
		switch st {
		case "zero-targets", "all-replies-seen", "reply-not-delivered", "handler-error-not-delivered":
		case "handled-on-replaced-stream", "old-incarnation", "server-down", "connection-fault":
			if owner == "C02" {
				owner = "C07"
			}
		default:
			return ""
		}
	}
	return owner
}

func (w *World) explainPending(c *Call) string {
	s := ""
	for _, si := range c.Targets {
		hs := w.handlersFor(c, si)
		st := "no handler started"
		for _, h := range hs {
			switch {
			case h.ReturnSeq != 0 && h.ErrCode != 0:
				st = fmt.Sprintf("handler returned error %d", h.ErrCode)
			case h.ReturnSeq != 0:
				st = "handler replied"
			default:
				st = "handler running"
			}
		}
		s += fmt.Sprintf("[srv%d up=%v: %s] ", si, w.servers[si].Up, st)
	}
	if w.stuck == "" {
		w.stuck = w.stuckReport()
	}
	s += " | blocked: " + w.stuck
	return s
}

// ---- C06: each node gets exactly its own message

func (w *World) checkDelivery(c *Call) {
	if c.ReqVal == "" {
		return
	}
	targeted := map[int]bool{}
	for _, si := range c.Targets {
		targeted[si] = true
	}
	perSrv := map[int]int{}
	for _, h := range w.hrecs {
		if h.Tok != c.Tok {
			continue
		}
		perSrv[h.Srv]++
		if !targeted[h.Srv] {
			w.violate("C06", "untargeted-delivery", "", "call t%d (%s): server %d received a message although it was not targeted (skipped by the per-node function or not in the configuration)", c.Tok, c.Stub, h.Srv)
			continue
		}
		ok := h.ReqVal == c.Expect[h.Srv]
		w.rule("C06.payload", ok)
		if !ok {
			w.violate("C06", "wrong-payload", "", "call t%d (%s): server %d received payload %q, expected %q", c.Tok, c.Stub, h.Srv, clip(h.ReqVal), clip(c.Expect[h.Srv]))
		}
		if h.Method != c.Stub {
			w.violate("C06", "wrong-method", "", "call t%d: stub %s reached handler %s on server %d", c.Tok, c.Stub, h.Method, h.Srv)
		}
	}
	for si, n := range perSrv {
		w.rule("C03.at-most-once", n <= 1)
		if n > 1 {
			w.violate("C03", "duplicate-handler", "", "call t%d (%s): server %d started %d handlers for one call", c.Tok, c.Stub, si, n)
			w.violate("C06", "duplicate-delivery", "", "call t%d (%s): server %d received the message %d times", c.Tok, c.Stub, si, n)
		}
	}
}
