// Package world builds the simulated gorums system (servers, managers, puppet
// handlers and quorum functions), drives it under the simrt scheduler and the
// simnet network, records the history and evaluates the property oracles.
package world

import (
	"context"
	"fmt"
	"math/rand/v2"
	"sort"
	"strings"
	"sync"
	"sync/atomic"
	"time"

	"github.com/relab/gorums"
	"google.golang.org/grpc"
	"google.golang.org/grpc/backoff"
	"google.golang.org/grpc/credentials/insecure"
	"google.golang.org/grpc/metadata"
	"google.golang.org/grpc/peer"
	"google.golang.org/protobuf/proto"

	"gorumsim/simnet"
	"gorumsim/simrt"
	"gorumsim/simrt/dsync"
	"gorumsim/zsvc"
)

// Event is one line of the generic history log.
type Event struct {
	Seq  uint64
	Step int
	Task string
	Kind string
	Attr string
}

func (e Event) String() string {
	return fmt.Sprintf("%d s%d [%s] %s %s", e.Seq, e.Step, e.Task, e.Kind, e.Attr)
}

// Violation is an oracle verdict.
type Violation struct {
	Property string
	Rule     string
	Detail   string
	// Key identifies the violation class for known-findings matching and shrinking.
	Key string
}

// World is one simulated run.
type World struct {
	barriers map[string]*barrierRec
	freeze   *Call // the clock is frozen until this call has returned (C06)
	Cfg  RunConfig
	Prog *Program

	sched *simrt.Sched
	net   *simnet.Net
	rng   *rand.Rand // driver only

	mu     hmutex
	seq    uint64
	step   int
	events []Event

	servers []*Server
	mgrs    []*Mgr
	calls   []*Call
	byReq   map[proto.Message]*Call
	hrecs   []*HandlerRec

	settling  bool // read by gate predicates (driver goroutine / under simrt lock)
	settlingA atomic.Bool
	phase     string
	start     time.Time

	threadsDone int
	threadsAll  int

	viol   []Violation
	notes  []string
	probes map[string]int // "rare condition was hit" counters
	rules  map[string]*RuleStat

	trace       []string
	chooser     Chooser
	lastTask    string
	simTime     time.Duration
	faults      map[string]int
	stalls      *dsync.StallConfig
	stallsSeen  int64
	stallFaultAt, stallFaults int
	stallClosed bool
	cancels     []*cancelAct
	pending     []*worldAct // one-shot harness actions (close manager, crash, ...)
	sigParts    []string
	stuck       string
	idleTicks   int
	idleRun     int
	mainEndStep int
	internal    string
}

// RuleStat counts how often an oracle rule was applicable and held.
type RuleStat struct{ Applicable, Held int }

// Server is one simulated gorums server process (across incarnations).
type Server struct {
	Idx  int
	Addr string
	ID   uint32
	Inc  int
	Up   bool
	srv  *gorums.Server
	lis  *simnet.Listener
	// per incarnation
	streams    map[context.Context]*StreamRec
	allStreams []*StreamRec
	nextSerial int
}

// StreamRec is one accepted server-side NodeStream.
type StreamRec struct {
	Srv, Inc, ID int
	Client       string // name of the dialling manager (from the peer address)
	Peer         string
	MD           metadata.MD
	Callbacks    int
	CallbackSeq  uint64
	NoCallback   bool
	// outstanding: handlers entered and not yet released (C04)
	outstanding map[*HandlerRec]bool
	entered     []*HandlerRec
}

// Mgr is one client manager.
type Mgr struct {
	Idx            int
	Name           string
	mgr            *zsvc.Manager
	cfgs           []*CfgRec
	qspec          *puppetQSpec
	ready          bool
	readyA         atomic.Bool // same as ready, for gate predicates evaluated by other goroutines
	closed         bool
	CloseSeq       uint64 // seq when Close returned
	closeInvokedAt time.Duration
	nodeSrv        map[uint32]int
	rawNodes       []*gorums.RawNode // captured by the setup task (the driver must not call into the library)
	baseRoles      map[string]bool   // roles of the library goroutines that exist once the manager is set up
}

// CfgRec is one configuration of a manager.
type CfgRec struct {
	cfg     *zsvc.Configuration
	Servers []int // server indices in configuration (node id) order
}

func (w *World) nextSeq() uint64 {
	w.seq++
	return w.seq
}

// ev appends to the history log and returns the sequence number.
func (w *World) ev(kind string, format string, a ...any) uint64 {
	task := simrt.SelfName()
	w.mu.Lock()
	s := w.nextSeq()
	w.events = append(w.events, Event{Seq: s, Step: w.step, Task: task, Kind: kind, Attr: fmt.Sprintf(format, a...)})
	w.mu.Unlock()
	return s
}

func (w *World) violate(prop, rule, key, format string, a ...any) {
	w.mu.Lock()
	defer w.mu.Unlock()
	if key == "" {
		key = rule
	}
	for _, v := range w.viol {
		if v.Property == prop && v.Rule == rule && v.Key == key {
			return
		}
	}
	w.viol = append(w.viol, Violation{Property: prop, Rule: rule, Key: key, Detail: fmt.Sprintf(format, a...)})
}

func (w *World) note(format string, a ...any) {
	w.mu.Lock()
	w.notes = append(w.notes, fmt.Sprintf(format, a...))
	w.mu.Unlock()
}

func (w *World) probe(name string) {
	w.mu.Lock()
	w.probes[name]++
	w.mu.Unlock()
}

func (w *World) rule(name string, held bool) {
	w.mu.Lock()
	r := w.rules[name]
	if r == nil {
		r = &RuleStat{}
		w.rules[name] = r
	}
	r.Applicable++
	if held {
		r.Held++
	}
	w.mu.Unlock()
}

// nodeID of server i.
func nodeID(i int) uint32 { return uint32(10 + 7*((i+3)%8) + i*100) }

func addrOf(i int) string { return fmt.Sprintf("127.0.0.1:%d", 9000+i) }

// ---------------------------------------------------------------- servers

func (w *World) startServer(s *Server) {
	s.Inc++
	s.streams = map[context.Context]*StreamRec{}
	s.nextSerial = 0
	inc := s.Inc
	opts := []gorums.ServerOption{
		gorums.WithConnectCallback(func(ctx context.Context) { w.onConnect(s, inc, ctx) }),
	}
	if w.Cfg.ServerBuffer > 0 {
		opts = append(opts, gorums.WithReceiveBufferSize(uint(w.Cfg.ServerBuffer)))
	}
	s.srv = gorums.NewServer(opts...)
	zsvc.RegisterZorumsServiceServer(s.srv, &puppetServer{w: w, s: s, inc: inc})
	lis, err := w.net.Listen(s.Addr)
	if err != nil {
		panic(err)
	}
	s.lis = lis
	s.Up = true
	srv := s.srv
	go func() { _ = srv.Serve(lis) }()
	w.ev("server-start", "srv=%d inc=%d", s.Idx, inc)
}

// crashServer models a process crash: listener gone, all connections reset, server stopped.
func (w *World) crashServer(s *Server) {
	if !s.Up {
		return
	}
	s.Up = false
	w.ev("server-crash", "srv=%d inc=%d", s.Idx, s.Inc)
	s.lis.Close()
	w.net.ResetAllOf(s.Addr)
	srv := s.srv
	// Stop blocks until serving goroutines notice; run it outside the driver
	go srv.Stop()
}

func (w *World) onConnect(s *Server, inc int, ctx context.Context) {
	md, _ := metadata.FromIncomingContext(ctx)
	w.mu.Lock()
	st := s.streams[ctx]
	if st == nil {
		st = &StreamRec{Srv: s.Idx, Inc: inc, ID: len(s.allStreams), outstanding: map[*HandlerRec]bool{}}
		s.streams[ctx] = st
		s.allStreams = append(s.allStreams, st)
	}
	st.Callbacks++
	st.MD = md.Copy()
	if pr, ok := peer.FromContext(ctx); ok {
		a := pr.Addr.String()
		if i := strings.IndexByte(a, ':'); i > 0 {
			st.Client = a[:i]
		}
		st.Peer = a
	}
	w.mu.Unlock()
	// name the gRPC-created stream goroutine deterministically
	simrt.Adopt(fmt.Sprintf("srv%d#%d/stream%d", s.Idx, inc, st.ID), "srvloop")
	st.CallbackSeq = w.ev("connect-callback", "srv=%d inc=%d stream=%d client=%s", s.Idx, inc, st.ID, strings.Join(md.Get("client"), ","))
}

// ---------------------------------------------------------------- managers

// managerOptions builds the manager options of the run. All durations carry small odd offsets:
// round values make timers of gorums, of gRPC and of the calls' contexts expire at exactly the same
// (fake) instant now and then, and the runtime does not order timers with equal deadlines.
func (w *World) managerOptions(m *Mgr) []gorums.ManagerOption {
	c := w.Cfg
	opts := []gorums.ManagerOption{
		gorums.WithGrpcDialOptions(
			grpc.WithContextDialer(w.net.Dialer(m.Name)),
			grpc.WithTransportCredentials(insecure.NewCredentials()),
		),
		gorums.WithDialTimeout(time.Duration(c.DialTimeoutMs)*time.Millisecond + 131*time.Microsecond + 7),
	}
	if c.WithBlock {
		opts = append(opts, gorums.WithGrpcDialOptions(grpc.WithBlock()))
	}
	if c.BackoffBaseMs > 0 {
		opts = append(opts, gorums.WithBackoff(backoff.Config{
			BaseDelay:  time.Duration(c.BackoffBaseMs)*time.Millisecond + 17*time.Microsecond + 3,
			Multiplier: c.BackoffMult,
			Jitter:     c.BackoffJitter,
			MaxDelay:   time.Duration(c.BackoffMaxMs)*time.Millisecond + 257*time.Microsecond + 11,
		}))
	}
	if c.SendBuffer > 0 {
		opts = append(opts, gorums.WithSendBufferSize(uint(c.SendBuffer)))
	}
	switch c.Metadata {
	case "general", "both":
		opts = append(opts, gorums.WithMetadata(metadata.Pairs("client", m.Name, "general", "g-"+m.Name)))
	}
	switch c.Metadata {
	case "pernode", "both":
		opts = append(opts, gorums.WithPerNodeMetadata(func(id uint32) metadata.MD {
			return metadata.Pairs("pernode", fmt.Sprintf("%s-%d", m.Name, id))
		}))
	}
	return opts
}

// expectedMD returns the metadata every stream of manager m to node id must carry.
func (w *World) expectedMD(m *Mgr, id uint32) map[string]string {
	out := map[string]string{}
	switch w.Cfg.Metadata {
	case "general", "both":
		out["client"] = m.Name
		out["general"] = "g-" + m.Name
	}
	switch w.Cfg.Metadata {
	case "pernode", "both":
		out["pernode"] = fmt.Sprintf("%s-%d", m.Name, id)
	}
	return out
}

// setupManager runs in the manager's setup task.
func (w *World) setupManager(m *Mgr) {
	m.mgr = zsvc.NewManager(w.managerOptions(m)...)
	m.qspec = &puppetQSpec{w: w, m: m}
	m.nodeSrv = map[uint32]int{}
	for si := 0; si < w.Cfg.NServers; si++ {
		m.nodeSrv[nodeID(si)] = si
	}
	for ci, members := range w.Prog.Configs[m.Idx] {
		nm := map[string]uint32{}
		var srvs []int
		for _, si := range members {
			nm[addrOf(si)] = nodeID(si)
			m.nodeSrv[nodeID(si)] = si
			srvs = append(srvs, si)
		}
		sort.Slice(srvs, func(i, j int) bool { return nodeID(srvs[i]) < nodeID(srvs[j]) })
		cfg, err := m.mgr.NewConfiguration(m.qspec, gorums.WithNodeMap(nm))
		if err != nil {
			w.note("manager %s: NewConfiguration %d failed: %v", m.Name, ci, err)
			w.ev("config-error", "mgr=%d cfg=%d err=%v", m.Idx, ci, err)
			m.cfgs = append(m.cfgs, nil)
			continue
		}
		// sanity: order of nodes must follow ids
		ids := cfg.NodeIDs()
		for i, si := range srvs {
			if i >= len(ids) || ids[i] != nodeID(si) {
				w.note("configuration order unexpected: %v vs %v", ids, srvs)
			}
		}
		m.cfgs = append(m.cfgs, &CfgRec{cfg: cfg, Servers: srvs})
	}
	for _, n := range m.mgr.Nodes() {
		m.rawNodes = append(m.rawNodes, n.RawNode)
	}
	m.baseRoles = map[string]bool{}
	for n, r := range w.sched.LiveRoles() {
		if strings.HasPrefix(n, m.Name+"/") && strings.Contains(n, ".go:") {
			m.baseRoles[r] = true
		}
	}
	m.ready = true
	m.readyA.Store(true)
	w.ev("manager-ready", "mgr=%d cfgs=%d", m.Idx, len(m.cfgs))
}

func (w *World) nodeOf(m *Mgr, si int) *zsvc.Node {
	for _, n := range m.mgr.Nodes() {
		if n.ID() == nodeID(si) {
			return n
		}
	}
	return nil
}

// elapsed returns simulated time since the start of the run.
func (w *World) elapsed() time.Duration { return time.Since(w.start) }

// hmutex is the harness lock. The harness calls small library functions (Error, NodeIDs, ...) while
// holding it; in race-detector runs such a call must not be stalled on the fake clock (T6): somebody
// may wait for the lock in a real Mutex.Lock, which is not a durable block in synctest's sense, and the
// clock would never advance. The holder therefore raises a flag that dsync.Stall reads; flag accesses
// are excluded from race instrumentation and create no happens-before edge (the only reader that must
// see the flag raised is the holder itself).
type hmutex struct{ m sync.Mutex }

func (h *hmutex) Lock() {
	h.m.Lock()
	dsync.HoldStalls(true)
}

func (h *hmutex) Unlock() {
	dsync.HoldStalls(false)
	h.m.Unlock()
}
