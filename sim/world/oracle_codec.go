package world

import (
	"fmt"
	"runtime"
	"sync/atomic"

	"github.com/relab/gorums"
	"github.com/relab/gorums/ordering"
	"google.golang.org/grpc/codes"
	"google.golang.org/grpc/encoding"
	"google.golang.org/protobuf/encoding/protowire"
	"google.golang.org/protobuf/proto"
	"google.golang.org/protobuf/reflect/protoreflect"
	"google.golang.org/protobuf/reflect/protoregistry"

	"gorumsim/simrt"
)

// simCodec wraps the real gorums codec in gRPC's codec registry (an existing seam). In the
// C13 profile it corrupts a scheduler-chosen subset of the frames in transit - modelling a
// corrupted or hostile peer - and it turns a panic of the real decoder into a recorded
// violation (in a real process the panic would have crashed the receiver).
type simCodec struct{ inner encoding.Codec }

var curWorld atomic.Pointer[World]

func init() {
	encoding.RegisterCodec(simCodec{inner: gorums.NewCodec()})
	profileGen["C13"] = genC13
	profileAfterMain["C13"] = afterC13
}

func (c simCodec) Name() string { return gorums.ContentSubtype }

func (c simCodec) Marshal(v any) ([]byte, error) {
	b, err := c.inner.Marshal(v)
	if err != nil {
		return b, err
	}
	if w := curWorld.Load(); w != nil && w.Cfg.CorruptP > 0 && w.phase == "main" {
		if _, isMsg := v.(*gorums.Message); isMsg {
			b = w.maybeCorrupt(b)
		}
	}
	return b, nil
}

func (c simCodec) Unmarshal(data []byte, v any) (err error) {
	defer func() {
		if r := recover(); r != nil {
			buf := make([]byte, 8<<10)
			n := runtime.Stack(buf, false)
			if w := curWorld.Load(); w != nil {
				fn := "decoder"
				if m := libFrameRe.FindStringSubmatch(string(buf[:n])); m != nil {
					fn = m[1]
				}
				w.rule("C13.decoder-never-panics", false)
				w.violate("C13", "decoder-panic", fn, "decoding a frame of %d bytes panicked in %s: %v (frame %x)", len(data), fn, r, clipBytes(data))
			}
			err = fmt.Errorf("decoder panicked: %v", r)
		}
	}()
	if w := curWorld.Load(); w != nil && w.Cfg.CorruptP > 0 {
		w.rule("C13.decoder-never-panics", true)
	}
	return c.inner.Unmarshal(data, v)
}

func clipBytes(b []byte) []byte {
	if len(b) > 64 {
		return b[:64]
	}
	return b
}

var hostileNames = []string{
	"dev.ZorumsService.NoSuchMethod", "no.such.Name", "", "dev.Request", "dev.Response", "dev.ZorumsService",
	"ordering.Metadata", "ordering.Gorums", "google.protobuf.Empty", "dev.Request.Value",
	"gorums.quorumcall", "dev.ZorumsService.QuorumCall.", ".dev.ZorumsService.QuorumCall", "google.rpc.Status", "google.rpc.Code",
}

// hostileLength picks a length prefix that does not match the frame: small values around the real
// sizes, and the boundary values at which a decoder's own arithmetic (int conversion, n + size)
// wraps around.
func hostileLength(r uint64, frameLen int) uint64 {
	switch r % 4 {
	case 0, 1:
		return (r >> 4) % 300
	case 2:
		return uint64(frameLen) + (r>>4)%3 - 1
	}
	edges := []uint64{1 << 31, 1<<31 - 1, 1 << 32, 1<<32 - 1, 1 << 40, 1 << 62, 1<<63 - 1, 1 << 63, 1<<63 + 1, 1<<63 + uint64(frameLen), ^uint64(0), ^uint64(0) - uint64(frameLen), ^uint64(0) - 1}
	return edges[(r>>4)%uint64(len(edges))]
}

// maybeCorrupt mutates the marshalled frame with probability CorruptP. All randomness comes
// from the calling task's deterministic stream.
func (w *World) maybeCorrupt(b []byte) []byte {
	r := simrt.TaskRand()
	if float64(r%10000)/10000 >= w.Cfg.CorruptP {
		return b
	}
	r = simrt.TaskRand()
	kind := r % 7
	out := append([]byte(nil), b...)
	name := ""
	switch kind {
	case 0: // truncate
		if len(out) > 0 {
			out = out[:int((r>>8)%uint64(len(out)))]
		}
		name = "truncate"
	case 1: // flip a byte
		if len(out) > 0 {
			i := int((r >> 8) % uint64(len(out)))
			out[i] ^= byte(1 << ((r >> 40) % 8))
		}
		name = "flip"
	case 2: // rewrite the metadata length prefix
		_, n := protowire.ConsumeVarint(out)
		if n > 0 {
			nl := hostileLength(r>>8, len(out))
			out = append(protowire.AppendVarint(nil, nl), out[n:]...)
		}
		name = "md-length"
	case 3: // rewrite the payload length prefix
		md, n := protowire.ConsumeBytes(out)
		if n > 0 && md != nil {
			_, m := protowire.ConsumeVarint(out[n:])
			if m > 0 {
				nl := hostileLength(r>>8, len(out))
				out = append(append(append([]byte(nil), out[:n]...), protowire.AppendVarint(nil, nl)...), out[n+m:]...)
			}
		}
		name = "msg-length"
	case 4, 5: // replace the method by an unknown name or the name of a non-method entity
		md, n := protowire.ConsumeBytes(out)
		if n > 0 {
			var meta ordering.Metadata
			if proto.Unmarshal(md, &meta) == nil {
				meta.Method = hostileNames[int((r>>8)%uint64(len(hostileNames)))]
				if nb, err := proto.Marshal(&meta); err == nil {
					out = append(protowire.AppendBytes(nil, nb), out[n:]...)
				}
				name = "method:" + meta.Method
			}
		}
	case 6: // garbage
		k := int((r >> 8) % 40)
		out = make([]byte, k)
		for i := range out {
			out[i] = byte(simrt.TaskRand())
		}
		name = "garbage"
	}
	if forged(b, out) {
		// The mutation produced a well-formed frame of a registered method that is addressed to
		// another call or names another method: that is a forged message, not a corrupted one.
		// What C13 promises about "arbitrary bytes" concerns the decoder, and the decoder handles
		// this frame correctly; which call it is then routed to is not the codec's business.
		w.mu.Lock()
		w.faults["corrupt-rejected-forgery"]++
		w.mu.Unlock()
		return b
	}
	w.mu.Lock()
	w.faults["corrupt"]++
	if name != "" {
		kindKey := name
		if len(kindKey) > 7 && kindKey[:7] == "method:" {
			kindKey = "method"
		}
		w.faults["corrupt-"+kindKey]++
	}
	w.mu.Unlock()
	return out
}

// frameMeta parses the metadata of a frame: <varint n><n bytes ordering.Metadata>...
func frameMeta(b []byte) (*ordering.Metadata, bool) {
	md, n := protowire.ConsumeBytes(b)
	if n < 0 {
		return nil, false
	}
	var meta ordering.Metadata
	if proto.Unmarshal(md, &meta) != nil {
		return nil, false
	}
	return &meta, true
}

func forged(orig, mut []byte) bool {
	m, ok := frameMeta(mut)
	if !ok {
		return false
	}
	d, err := protoregistry.GlobalFiles.FindDescriptorByName(protoreflect.FullName(m.GetMethod()))
	if err != nil {
		return false
	}
	if _, isMethod := d.(protoreflect.MethodDescriptor); !isMethod {
		return false
	}
	o, ok := frameMeta(orig)
	return !ok || o.GetMessageID() != m.GetMessageID() || o.GetMethod() != m.GetMethod()
}

func genC13(g *gen) {
	c := g.cfg
	c.NMgrs = 2
	c.FaultFree = false
	// a quarter of the runs inject no corruption: there the round-trip clause is exact
	c.CorruptP = pick(g.r, 0, 0.05, 0.1, 0.4)
	g.genConfigs(false)
	pool := stubsOf("rpc", "qc", "async", "corr", "cstream", "mcast", "ucast")
	for m := 0; m < c.NMgrs; m++ {
		th := &Thread{Mgr: m}
		nOps := 2 + g.r.IntN(6)
		for i := 0; i < nOps; i++ {
			s := pool[g.r.IntN(len(pool))]
			op := g.callOp(m, s, 0, 0.2)
			for _, p := range plansInOrder(op.Plans) {
				if s.Kind == "cstream" {
					p.StreamK = g.r.IntN(3)
				}
			}
			if s.Kind == "corr" || s.Kind == "cstream" {
				op.QF = &QFSpec{NeedServer: -1, DoneAt: 1 + g.r.IntN(3)}
			}
			// corrupted frames make calls fail or hang: bound every call
			op.Ctx = "deadline"
			op.DeadlineMs = pick(g.r, 50, 1000, 5000)
			th.Ops = append(th.Ops, op)
		}
		g.prog.Threads = append(g.prog.Threads, th)
	}
}

func afterC13(w *World) {
	w.settle("settle", true, 0, w.horizon(), 20000, w.allCallsDone)
	if w.Cfg.CorruptP == 0 {
		// round trip (no corruption injected in this run): what a handler received is equal to
		// what the caller sent, including fields the receiving schema does not know
		w.mu.Lock()
		hs := append([]*HandlerRec(nil), w.hrecs...)
		w.mu.Unlock()
		// ... and a handler's error status reaches the caller with the same code and message
		// (judged when no context ended before its call completed: a cancellation resets the
		// shared stream and may legitimately replace a node's status by a connection error)
		quiet := true
		for _, c := range w.calls[1:] {
			if c.InvokeSeq != 0 && c.CtxEndSeq != 0 && (c.DoneSeq == 0 || c.CtxEndSeq < c.DoneSeq) {
				quiet = false
			}
		}
		for _, c := range w.calls[1:] {
			if !quiet || c.InvokeSeq == 0 || c.DoneSeq == 0 || c.Err == nil || c.IsProbe {
				continue
			}
			var entries []nodeErrEntry
			switch c.Info.Kind {
			case "rpc":
				if len(c.Targets) == 1 {
					e := nodeErrEntry{ID: nodeID(c.Targets[0]), Text: c.ErrText}
					if sm := statusRe.FindStringSubmatch(c.ErrText); sm != nil {
						e.Code, e.Desc = sm[1], sm[2]
					}
					entries = append(entries, e)
				}
			case "qc", "async":
				entries = parseNodeErrors(c.ErrText)
			}
			for _, e := range entries {
				for _, si := range c.Targets {
					if nodeID(si) != e.ID {
						continue
					}
					for _, h := range w.handlersFor(c, si) {
						if h.ErrCode == 0 {
							continue
						}
						ok := e.Code == codes.Code(h.ErrCode).String() && e.Desc == h.ErrMsg
						w.rule("C13.status-round-trips", ok)
						if !ok {
							w.violate("C13", "status-not-equal", "", "call t%d (%s): the handler of node %d failed with code %s and message %q, the caller sees %q", c.Tok, c.Stub, e.ID, codes.Code(h.ErrCode), clip(h.ErrMsg), clip(e.Text))
						}
					}
				}
			}
		}
		for _, h := range hs {
			if h.Tok <= 0 || h.Tok >= len(w.calls) {
				continue
			}
			c := w.calls[h.Tok]
			want, targeted := c.Expect[h.Srv]
			if !targeted || c.Info.ReqEmpty {
				continue
			}
			ok := h.ReqVal == want
			w.rule("C13.request-round-trips", ok)
			if !ok {
				w.violate("C13", "request-not-equal", "unknown-fields", "call t%d (%s): server %d decoded the request as %q, the caller had sent %q - decode(encode(m)) is not equal to m", c.Tok, c.Stub, h.Srv, clip(h.ReqVal), clip(want))
			}
		}
	}
	// after the faults stopped every node must serve every manager again (the receiving processes
	// survived and the affected connections recovered)
	dead, detail := w.probeUntilUsable()
	w.rule("C13.peers-keep-serving", len(dead) == 0)
	if len(dead) > 0 {
		w.violate("C13", "not-serving-after-corruption", w.wedgeKey(), "after corrupted frames had been injected and the faults stopped, probe calls to %v never succeeded within %v (simulated): %v | %s", dead, w.horizon(), detail, w.stuckReport())
	}
}
