package world

import (
	"time"
	"bytes"
	"encoding/hex"
	"fmt"
	"strconv"
	"strings"

	"github.com/relab/gorums"
	"google.golang.org/grpc/codes"
	"google.golang.org/grpc/peer"
	"google.golang.org/grpc/status"
	"google.golang.org/protobuf/encoding/protowire"
	"google.golang.org/protobuf/proto"
	"google.golang.org/protobuf/types/known/emptypb"

	"gorumsim/simrt"
	"gorumsim/zsvc"
)

var defaultPlan = &HandlerPlan{Reply: "ok"}

type puppetServer struct {
	w   *World
	s   *Server
	inc int
}

func reqVal(m proto.Message) string {
	switch r := m.(type) {
	case *zsvc.Request:
		if u := r.ProtoReflect().GetUnknown(); len(u) > 0 {
			// C13 profile: requests carry fields the receiver's schema does not know
			return r.GetValue() + "#u" + hex.EncodeToString(u)
		}
		return r.GetValue()
	}
	return ""
}

// unknownFor returns the unknown-field bytes (two fields the schema does not define) that
// accompany the value v in the C13 profile.
func unknownFor(v uint64) []byte {
	b := protowire.AppendTag(nil, 1000, protowire.VarintType)
	b = protowire.AppendVarint(b, v)
	b = protowire.AppendTag(b, 1001, protowire.BytesType)
	return protowire.AppendString(b, fmt.Sprintf("u%d", v))
}

// mkResp builds the reply of a puppet handler.
func mkResp(st int64) *zsvc.Response {
	r := &zsvc.Response{Result: st}
	if w := curWorld.Load(); w != nil && w.Cfg.Profile == "C13" {
		r.ProtoReflect().SetUnknown(unknownFor(uint64(st)))
	}
	return r
}

// checkReplyUnknown (C13, runs without injected corruption): a reply that reaches the client
// still carries the unknown fields its handler put into it.
func checkReplyUnknown(r *zsvc.Response) {
	w := curWorld.Load()
	if w == nil || r == nil || w.Cfg.Profile != "C13" || w.Cfg.CorruptP > 0 || r.GetResult() <= 0 {
		return
	}
	ok := bytes.Equal(r.ProtoReflect().GetUnknown(), unknownFor(uint64(r.GetResult())))
	w.rule("C13.reply-round-trips", ok)
	if !ok {
		w.violate("C13", "reply-not-equal", "unknown-fields", "a reply (stamp %v) reached the client without the unknown fields its handler had set: got %x, want %x - decode(encode(m)) is not equal to m", parseStamp(r.GetResult()), r.ProtoReflect().GetUnknown(), unknownFor(uint64(r.GetResult())))
	}
}

// parseTok extracts the call token from a request payload "t<tok>[/n<id>]"; -1 if absent.
func parseTok(v string) int {
	if !strings.HasPrefix(v, "t") {
		return -1
	}
	v = v[1:]
	if i := strings.IndexByte(v, '#'); i >= 0 {
		v = v[:i]
	}
	if i := strings.IndexByte(v, '~'); i >= 0 {
		v = v[:i]
	}
	if i := strings.IndexByte(v, '/'); i >= 0 {
		v = v[:i]
	}
	n, err := strconv.Atoi(v)
	if err != nil {
		return -1
	}
	return n
}

func (p *puppetServer) enter(ctx gorums.ServerCtx, method, val string) *HandlerRec {
	w := p.w
	w.mu.Lock()
	st := p.s.streams[ctx.Context]
	if p.inc != p.s.Inc {
		st = nil
		// a handler of a dead incarnation: find its stream among all streams
		for _, x := range p.s.allStreams {
			if x.Inc == p.inc {
				st = x // best effort; dead incarnations are not judged
			}
		}
	}
	if st == nil {
		st = &StreamRec{Srv: p.s.Idx, Inc: p.inc, ID: len(p.s.allStreams), NoCallback: true, outstanding: map[*HandlerRec]bool{}}
		if pr, ok := peer.FromContext(ctx.Context); ok {
			a := pr.Addr.String()
			if i := strings.IndexByte(a, ':'); i > 0 {
				st.Client = a[:i]
			}
		}
		if p.inc == p.s.Inc {
			p.s.streams[ctx.Context] = st
		}
		p.s.allStreams = append(p.s.allStreams, st)
	}
	serial := p.s.nextSerial
	p.s.nextSerial++
	tok := parseTok(val)
	plan := defaultPlan
	if tok > 0 && tok < len(w.calls) {
		if pl := w.calls[tok].Op.Plans[p.s.Idx]; pl != nil {
			plan = pl
		}
	} else {
		tok = -1
	}
	h := &HandlerRec{Tok: tok, Srv: p.s.Idx, Inc: p.inc, Serial: serial, Stream: st, Method: method, ReqVal: val, Plan: plan}
	h.EnterSeq = w.nextSeq()
	h.EnterStep = w.step
	overlap := len(st.outstanding)
	var other *HandlerRec
	for o := range st.outstanding {
		other = o
	}
	st.outstanding[h] = true
	st.entered = append(st.entered, h)
	w.hrecs = append(w.hrecs, h)
	w.events = append(w.events, Event{Seq: h.EnterSeq, Step: w.step, Kind: "h-enter", Attr: fmt.Sprintf("srv=%d inc=%d stream=%d ser=%d tok=%d %s val=%q", p.s.Idx, p.inc, st.ID, serial, tok, method, clip(val))})
	w.mu.Unlock()
	simrt.Adopt(fmt.Sprintf("srv%d#%d/h%d", p.s.Idx, p.inc, serial), "handler")
	if overlap > 0 && p.inc == p.s.Inc {
		w.violate("C04", "overlap", "", "server %d stream %d: handler ser=%d (tok %d) entered while handler ser=%d (tok %d) had neither returned nor released", p.s.Idx, st.ID, serial, tok, other.Serial, other.Tok)
	}
	w.rule("C04.one-at-a-time", overlap == 0)
	return h
}

func (p *puppetServer) markRelease(h *HandlerRec) {
	w := p.w
	w.mu.Lock()
	if h.ReleaseSeq == 0 {
		h.ReleaseSeq = w.nextSeq()
		delete(h.Stream.outstanding, h)
		w.events = append(w.events, Event{Seq: h.ReleaseSeq, Step: w.step, Kind: "h-release", Attr: fmt.Sprintf("srv=%d ser=%d tok=%d", h.Srv, h.Serial, h.Tok)})
	}
	w.mu.Unlock()
}

func (p *puppetServer) markReturn(h *HandlerRec) {
	p.markRelease(h)
	w := p.w
	w.mu.Lock()
	h.ReturnSeq = w.nextSeq()
	w.events = append(w.events, Event{Seq: h.ReturnSeq, Step: w.step, Kind: "h-return", Attr: fmt.Sprintf("srv=%d ser=%d tok=%d stamps=%d err=%d", h.Srv, h.Serial, h.Tok, len(h.Stamps), h.ErrCode)})
	w.mu.Unlock()
}

// releasePart performs the explicit Release calls of the plan.
func (p *puppetServer) releasePart(ctx gorums.ServerCtx, h *HandlerRec) {
	name := fmt.Sprintf("srv%d#%d/h%d", h.Srv, h.Inc, h.Serial)
	switch h.Plan.Release {
	case "early":
		simrt.Yield("h:pre-release")
		p.markRelease(h)
		ctx.Release()
		p.w.probe("release-early")
	case "twice":
		simrt.Yield("h:pre-release")
		p.markRelease(h)
		ctx.Release()
		ctx.Release()
		p.w.probe("release-twice")
	case "helper":
		p.markRelease(h)
		c := ctx
		simrt.GoNamed(name+"/rel0", "releaser", func() { c.Release() })
		p.w.probe("release-helper")
	case "concurrent":
		p.markRelease(h)
		c := ctx
		simrt.GoNamed(name+"/rel0", "releaser", func() { c.Release() })
		simrt.GoNamed(name+"/rel1", "releaser", func() { c.Release() })
		p.w.probe("release-concurrent")
	}
}

func (p *puppetServer) wait(h *HandlerRec) {
	switch h.Plan.Reply {
	case "hang":
		p.w.probe("handler-hang")
		simrt.Gate("h:hang", func() bool { return p.w.settlingA.Load() })
	default:
		if h.Plan.Late {
			simrt.Yield("h:return")
		}
	}
}

func (p *puppetServer) twoway(ctx gorums.ServerCtx, method, val string) (int64, bool, error) {
	h := p.enter(ctx, method, val)
	p.releasePart(ctx, h)
	p.wait(h)
	if h.Plan.Reply == "err" {
		h.ErrCode, h.ErrMsg = h.Plan.Code, h.Plan.Msg
		p.markReturn(h)
		if h.Plan.ErrWithResp {
			// `return resp, err` with a (partial, stale) response value: the node has failed all the same
			return mkStamp(h.Tok, h.Srv, h.Inc, h.Serial, 0), true, status.Error(codes.Code(h.Plan.Code), h.Plan.Msg)
		}
		return 0, false, status.Error(codes.Code(h.Plan.Code), h.Plan.Msg)
	}
	st := mkStamp(h.Tok, h.Srv, h.Inc, h.Serial, 0)
	p.w.mu.Lock()
	h.Stamps = append(h.Stamps, st)
	p.w.mu.Unlock()
	p.markReturn(h)
	return st, true, nil
}

func (p *puppetServer) oneway(ctx gorums.ServerCtx, method, val string) {
	h := p.enter(ctx, method, val)
	p.releasePart(ctx, h)
	p.wait(h)
	p.markReturn(h)
}

func (p *puppetServer) stream(ctx gorums.ServerCtx, method, val string, send func(int64) error) error {
	h := p.enter(ctx, method, val)
	p.releasePart(ctx, h)
	k := h.Plan.StreamK
	if h.Plan == defaultPlan {
		k = 1
	}
	for i := 0; i < k; i++ {
		if h.Plan.Late {
			simrt.Yield("h:stream-send")
		}
		st := mkStamp(h.Tok, h.Srv, h.Inc, h.Serial, i+1)
		p.w.mu.Lock()
		h.Stamps = append(h.Stamps, st)
		p.w.mu.Unlock()
		if err := send(st); err != nil {
			p.w.mu.Lock()
			h.SendFailed++
			p.w.mu.Unlock()
			p.w.ev("h-stream-send-failed", "srv=%d ser=%d tok=%d i=%d err=%v", h.Srv, h.Serial, h.Tok, i, err)
			p.markReturn(h)
			return nil
		}
	}
	switch h.Plan.StreamEnd {
	case "err":
		h.ErrCode, h.ErrMsg = h.Plan.Code, h.Plan.Msg
		p.markReturn(h)
		return status.Error(codes.Code(h.Plan.Code), h.Plan.Msg)
	case "hang":
		simrt.Gate("h:hang", func() bool { return p.w.settlingA.Load() })
	}
	p.markReturn(h)
	return nil
}

// ---------------------------------------------------------------- quorum functions

type puppetQSpec struct {
	w *World
	m *Mgr
}

func respStamps(r map[uint32]*zsvc.Response) map[uint32]int64 {
	out := make(map[uint32]int64, len(r))
	for k, v := range r {
		if v == nil {
			out[k] = -1
			continue
		}
		out[k] = v.GetResult()
		checkReplyUnknown(v)
	}
	return out
}

func emptyStamps(r map[uint32]*emptypb.Empty) map[uint32]int64 {
	out := make(map[uint32]int64, len(r))
	for k, v := range r {
		if v == nil {
			out[k] = -1
			continue
		}
		out[k] = 0
	}
	return out
}

func asResponse(v proto.Message) *zsvc.Response {
	if v == nil {
		return nil
	}
	return v.(*zsvc.Response)
}

func asMyResponse(v proto.Message) *zsvc.MyResponse {
	if v == nil {
		return nil
	}
	return v.(*zsvc.MyResponse)
}

func asEmpty(v proto.Message) *emptypb.Empty {
	if v == nil {
		return nil
	}
	return v.(*emptypb.Empty)
}

func (q *puppetQSpec) qf(method string, in proto.Message, replies map[uint32]int64, n int) (proto.Message, int, bool) {
	w := q.w
	w.mu.Lock()
	c := w.byReq[in]
	same := c != nil
	if c == nil {
		if tok := parseTok(reqVal(in)); tok > 0 && tok < len(w.calls) {
			c = w.calls[tok]
		}
	}
	if c == nil {
		w.mu.Unlock()
		w.violate("C01", "qf-request", "unknown", "quorum function %sQF invoked with a request that belongs to no call", method)
		return nil, 0, false
	}
	inv := &QFInvocation{Seq: w.nextSeq(), Step: w.step, Replies: replies, ReqSame: same, ReqIntact: reqVal(in) == c.ReqVal}
	if c.qfBusy {
		inv.Overlap = true
	}
	c.qfBusy = true
	inv.AfterReturn = c.DoneSeq != 0
	c.QFInv = append(c.QFInv, inv)
	k := len(c.QFInv)
	spec := c.Op.QF
	if spec == nil {
		spec = &QFSpec{Threshold: len(c.Targets), NeedServer: -1}
	}
	w.events = append(w.events, Event{Seq: inv.Seq, Step: w.step, Kind: "qf", Attr: fmt.Sprintf("tok=%d k=%d n=%d stub=%s", c.Tok, k, n, method)})
	w.mu.Unlock()
	if method != c.Stub {
		w.violate("C01", "qf-method", "", "call t%d of stub %s had quorum function %sQF invoked", c.Tok, c.Stub, method)
	}

	quorum := spec.Threshold > 0 && n >= spec.Threshold
	if spec.Exactly {
		quorum = spec.Threshold > 0 && n == spec.Threshold
	}
	if quorum && spec.NeedServer >= 0 {
		if _, ok := replies[nodeID(spec.NeedServer)]; !ok {
			quorum = false
		}
	}
	level := 0
	isCorr := c.Info.Kind == "corr" || c.Info.Kind == "cstream"
	if isCorr {
		if len(spec.Levels) > 0 {
			i := k - 1
			if i >= len(spec.Levels) {
				i = len(spec.Levels) - 1
			}
			level = spec.Levels[i]
		} else {
			level = n
		}
		if spec.DoneAt > 0 {
			quorum = k >= spec.DoneAt
		}
	}
	var ret proto.Message
	if quorum || spec.NonNilOnFalse || isCorr {
		switch {
		case c.Info.Custom:
			ret = &zsvc.MyResponse{Value: fmt.Sprintf("qf:t%d:%d", c.Tok, k)}
		case c.Info.RespEmpty:
			ret = &emptypb.Empty{}
		default:
			ret = &zsvc.Response{Result: -(int64(c.Tok)<<16 | int64(k))}
		}
	}
	if spec.Slow {
		simrt.Yield("qf:slow")
	}
	if spec.StallMs > 0 && k == 1 {
		t0 := w.elapsed()
		simrt.Gate("qf:stall", func() bool {
			return w.elapsed()-t0 >= time.Duration(spec.StallMs)*time.Millisecond || w.settlingA.Load()
		})
	}
	w.mu.Lock()
	inv.Quorum, inv.Level, inv.Ret = quorum, level, ret
	inv.EndSeq = w.nextSeq()
	c.qfBusy = false
	w.mu.Unlock()
	return ret, level, quorum
}

func clip(s string) string {
	if len(s) > 40 {
		return fmt.Sprintf("%s...(%d bytes)", s[:40], len(s))
	}
	return s
}
