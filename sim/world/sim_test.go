package world

import (
	"bufio"
	"encoding/json"
	"fmt"
	"os"
	"runtime"
	"sort"
	"strconv"
	"strings"
	"sync/atomic"
	"testing"
	"time"
)

// ReplayFile is the on-disk form of a reproducible run.
type ReplayFile struct {
	Property     string
	Rule         string
	Key          string
	Detail       string
	Seed         uint64
	Profile      string
	Tier         string
	Mode         string
	TreeHash     string
	Config       RunConfig
	Program      *Program
	Trace        []string
	LogHash      string
	Minimised    bool
	Reproducible *bool `json:",omitempty"`
}

// runLine is one line of a worker's result file.
type runLine struct {
	Seed       uint64
	Violations []Violation `json:",omitempty"`
	Notes      []string    `json:",omitempty"`
	Steps      int
	SimTimeMs  int64
	Faults     map[string]int       `json:",omitempty"`
	Probes     map[string]int       `json:",omitempty"`
	Rules      map[string]*RuleStat `json:",omitempty"`
	Net        map[string]int       `json:",omitempty"`
	LogHash    string
	SchedSig   string
	Nontrivial bool
	Tasks      int
	Unnamed    int
	Calls      int
	WallMs     float64
	Diverged   string `json:",omitempty"`
	Deadlock   string `json:",omitempty"`
	Internal   string `json:",omitempty"`
	Leaked     int
	Panics     int
	Replay     *ReplayFile `json:",omitempty"`
	Sample     any         `json:",omitempty"`
	Strategy   string
	// Enum: this run is a site-triggered fault point of the base program of the same seed
	Enum string `json:",omitempty"`
	// EnumPoints / EnumTruncated: set on the base run of an enumeration
	EnumPoints    int  `json:",omitempty"`
	EnumTruncated bool `json:",omitempty"`
}

func envInt(name string, def int) int {
	if v := os.Getenv(name); v != "" {
		if n, err := strconv.Atoi(v); err == nil {
			return n
		}
	}
	return def
}

func lineOf(res *Result, cfg RunConfig) runLine {
	l := runLine{Seed: res.Seed, Violations: res.Violations, Notes: res.Notes, Steps: res.Steps, SimTimeMs: res.SimTime.Milliseconds(),
		Faults: res.Faults, Probes: res.Probes, Rules: res.Rules, LogHash: res.LogHash, SchedSig: res.SchedSig, Nontrivial: res.Nontrivial,
		Tasks: res.Tasks, Unnamed: res.Unnamed, Calls: res.Calls, WallMs: float64(res.Wall.Microseconds()) / 1000, Diverged: res.Diverged,
		Deadlock: res.Deadlock, Internal: res.Internal, Leaked: len(res.Leaked), Panics: len(res.Panics), Strategy: cfg.Strategy}
	ns := res.NetStats
	l.Net = map[string]int{"dials": ns.Dials, "connects": ns.Connects, "refused": ns.Refused, "dial_timeouts": ns.DialTimeouts, "deliveries": ns.Deliveries,
		"partial_deliveries": ns.PartialDeliveries, "resets": ns.Resets, "closes": ns.Closes, "stalls": ns.Stalls}
	return l
}

// TestSim is the worker entry point: it runs the seeds SIM_SEED0 .. SIM_SEED0+SIM_COUNT-1
// (step SIM_STRIDE) of profile SIM_PROFILE and appends one JSON line per run to SIM_OUT.
func TestSim(t *testing.T) {
	profile := os.Getenv("SIM_PROFILE")
	if profile == "" {
		t.Skip("SIM_PROFILE not set")
	}
	tier := os.Getenv("SIM_TIER")
	if tier == "" {
		tier = "quick"
	}
	seed0 := uint64(envInt("SIM_SEED0", 1))
	count := envInt("SIM_COUNT", 1)
	stride := uint64(envInt("SIM_STRIDE", 1))
	budget := time.Duration(envInt("SIM_BUDGET_S", 0)) * time.Second
	outPath := os.Getenv("SIM_OUT")
	var out *bufio.Writer
	if outPath != "" {
		f, err := os.OpenFile(outPath, os.O_CREATE|os.O_WRONLY|os.O_APPEND, 0o644)
		if err != nil {
			t.Fatal(err)
		}
		defer f.Close()
		out = bufio.NewWriter(f)
		defer out.Flush()
	}
	sampleEvery := envInt("SIM_SAMPLE_EVERY", 0)
	verbose := os.Getenv("SIM_VERBOSE") != ""
	t0 := time.Now()
	var curSeed atomic.Uint64
	var curStart atomic.Int64
	go func() { // wall-clock watchdog, outside any bubble
		for {
			time.Sleep(2 * time.Second)
			st := curStart.Load()
			if st != 0 && time.Since(time.Unix(0, st)) > time.Duration(envInt("SIM_RUN_WATCHDOG_S", 90))*time.Second {
				fmt.Printf("WATCHDOG run of seed %d exceeded the wall-clock limit\n", curSeed.Load())
				buf := make([]byte, 1<<20)
				n := runtime.Stack(buf, true)
				os.Stdout.Write(buf[:n])
				os.Exit(3)
			}
		}
	}()
	for i := 0; i < count; i++ {
		if budget > 0 && time.Since(t0) > budget {
			break
		}
		seed := seed0 + uint64(i)*stride
		curSeed.Store(seed)
		curStart.Store(time.Now().UnixNano())
		cfg, prog := Generate(seed, profile, tier)
		res := Run(t, cfg, prog, RunOptions{KeepEvents: verbose})
		l := lineOf(res, cfg)
		if len(res.Violations) > 0 || res.Diverged != "" || (sampleEvery > 0 && i%sampleEvery == 0) {
			rf := &ReplayFile{Seed: seed, Profile: profile, Tier: tier, Mode: os.Getenv("SIM_MODE"), Config: cfg, Program: prog, Trace: res.Trace, LogHash: res.LogHash}
			if len(res.Violations) > 0 {
				v := res.Violations[0]
				rf.Property, rf.Rule, rf.Key, rf.Detail = v.Property, v.Rule, v.Key, v.Detail
			}
			l.Replay = rf
		}
		if verbose {
			for _, e := range res.Events {
				fmt.Println(e)
			}
			for _, tr := range res.Trace {
				fmt.Println("TRACE", tr)
			}
			for _, p := range res.Panics {
				fmt.Println("PANIC", p.Task, p.Value, "\n", p.Stack)
			}
			fmt.Println("LEAKED", res.Leaked)
			for _, r := range res.Remaining {
				fmt.Println("REMAINING", r)
			}
		}
		if out != nil {
			b, _ := json.Marshal(l)
			out.Write(b)
			out.WriteByte('\n')
			out.Flush()
		} else {
			b, _ := json.Marshal(l)
			s := string(b)
			if len(s) > 2000 && !verbose {
				s = s[:2000] + "..."
			}
			fmt.Println(s)
		}
		if res.Internal != "" {
			fmt.Println("INTERNAL", res.Internal)
		}
	}
}

// enumFaults lists the fault kinds that are placed at every profiled point for a profile.
func enumFaults(profile string, cfg RunConfig, prog *Program) []Fault {
	var out []Fault
	switch profile {
	case "C07":
		for s := 0; s < cfg.NServers; s++ {
			out = append(out, Fault{Kind: "crash", Srv: s, Mgr: -1}, Fault{Kind: "reset", Srv: s, Mgr: -1})
		}
	case "C10":
		for s := 0; s < cfg.NServers; s++ {
			out = append(out, Fault{Kind: "crash", Srv: s, Mgr: -1})
		}
	case "C12":
		out = append(out, Fault{Kind: "close", Mgr: 0, K: 1}, Fault{Kind: "close", Mgr: 0, K: 2})
	case "C02", "C08":
		// the context of every cancellable call ends at every profiled point
		for ti, th := range prog.Threads {
			for oi, op := range th.Ops {
				if op.Kind == "call" && op.Ctx == "cancel" {
					out = append(out, Fault{Kind: "cancel", Thread: ti, OpIdx: oi})
				}
			}
		}
	}
	return out
}

// TestEnum is the worker entry point of the site-triggered fault enumeration: for every base
// seed the program is run once with profiling on; then the same seed is re-run once per
// (task role, scheduling site, k-th visit) x fault kind with that single fault armed there.
func TestEnum(t *testing.T) {
	profile := os.Getenv("SIM_PROFILE")
	if profile == "" || os.Getenv("SIM_ENUM") == "" {
		t.Skip("SIM_PROFILE / SIM_ENUM not set")
	}
	tier := os.Getenv("SIM_TIER")
	if tier == "" {
		tier = "quick"
	}
	seed0 := uint64(envInt("SIM_SEED0", 1))
	count := envInt("SIM_COUNT", 1)
	stride := uint64(envInt("SIM_STRIDE", 1))
	budget := time.Duration(envInt("SIM_BUDGET_S", 0)) * time.Second
	maxK := envInt("SIM_ENUM_K", 3)
	maxPoints := envInt("SIM_ENUM_MAX", 400)
	f, err := os.OpenFile(os.Getenv("SIM_OUT"), os.O_CREATE|os.O_WRONLY|os.O_APPEND, 0o644)
	if err != nil {
		t.Fatal(err)
	}
	defer f.Close()
	out := bufio.NewWriter(f)
	defer out.Flush()
	emit := func(l runLine) {
		b, _ := json.Marshal(l)
		out.Write(b)
		out.WriteByte('\n')
		out.Flush()
	}
	t0 := time.Now()
	var curSeed atomic.Uint64
	var curStart atomic.Int64
	var curPoint atomic.Value
	curPoint.Store("base")
	go func() { // wall-clock watchdog, outside any bubble
		for {
			time.Sleep(2 * time.Second)
			st := curStart.Load()
			if st != 0 && time.Since(time.Unix(0, st)) > time.Duration(envInt("SIM_RUN_WATCHDOG_S", 90))*time.Second {
				fmt.Printf("WATCHDOG run of seed %d (point %v) exceeded the wall-clock limit\n", curSeed.Load(), curPoint.Load())
				buf := make([]byte, 1<<20)
				n := runtime.Stack(buf, true)
				os.Stdout.Write(buf[:n])
				os.Exit(3)
			}
		}
	}()
	mkReplay := func(seed uint64, cfg RunConfig, prog *Program, res *Result) *ReplayFile {
		rf := &ReplayFile{Seed: seed, Profile: profile, Tier: tier, Mode: os.Getenv("SIM_MODE"), Config: cfg, Program: prog, Trace: res.Trace, LogHash: res.LogHash}
		if len(res.Violations) > 0 {
			v := res.Violations[0]
			rf.Property, rf.Rule, rf.Key, rf.Detail = v.Property, v.Rule, v.Key, v.Detail
		}
		return rf
	}
	for i := 0; i < count; i++ {
		if budget > 0 && time.Since(t0) > budget {
			break
		}
		seed := seed0 + uint64(i)*stride
		curSeed.Store(seed)
		curPoint.Store("base")
		curStart.Store(time.Now().UnixNano())
		cfg, prog := Generate(seed, profile, tier)
		// the base program keeps its planned faults; the enumerated fault is one more
		base := Run(t, cfg, cloneProgram(prog), RunOptions{Profile: true})
		hits, _ := base.Sample.(map[string]int)
		var points []string
		for k := range hits {
			points = append(points, k)
		}
		sort.Strings(points)
		kinds := enumFaults(profile, cfg, prog)
		type pt struct {
			role, site string
			k          int
			f          Fault
		}
		var all []pt
		for _, rs := range points {
			j := strings.IndexByte(rs, '@')
			if j < 0 {
				continue
			}
			role, site := rs[:j], rs[j+1:]
			for k := 1; k <= hits[rs] && k <= maxK; k++ {
				for _, fk := range kinds {
					all = append(all, pt{role, site, k, fk})
				}
			}
		}
		bl := lineOf(base, cfg)
		bl.EnumPoints = len(all)
		if len(all) > maxPoints {
			// deterministic thinning: keep every n-th point
			bl.EnumTruncated = true
			step := float64(len(all)) / float64(maxPoints)
			var kept []pt
			for x := 0.0; int(x) < len(all) && len(kept) < maxPoints; x += step {
				kept = append(kept, all[int(x)])
			}
			all = kept
			bl.EnumPoints = len(all)
		}
		if len(base.Violations) > 0 {
			bl.Replay = mkReplay(seed, cfg, prog, base)
		}
		emit(bl)
		for _, p := range all {
			if budget > 0 && time.Since(t0) > budget {
				break
			}
			curStart.Store(time.Now().UnixNano())
			curPoint.Store(fmt.Sprintf("%s@%s#%d:%s/%d", p.role, p.site, p.k, p.f.Kind, p.f.Srv))
			q := cloneProgram(prog)
			nf := p.f
			nf.Role, nf.Site = p.role, p.site
			if nf.Kind == "cancel" {
				// the enumerated cancellation is the only one this call gets
				if op := q.Threads[nf.Thread].Ops[nf.OpIdx]; op != nil {
					op.CancelW, op.CancelAfter = 1e-9, false
				}
			}
			if nf.Kind == "close" {
				// K is the number of concurrent Close invocations for close faults; the visit count is kept in AtVisit
				nf.AtVisit = p.k
			} else {
				nf.K = p.k
			}
			q.Faults = append(q.Faults, &nf)
			res := Run(t, cfg, cloneProgram(q), RunOptions{})
			l := lineOf(res, cfg)
			l.Enum = fmt.Sprintf("%s@%s#%d:%s", p.role, p.site, p.k, nf.Kind)
			if len(res.Violations) > 0 {
				l.Replay = mkReplay(seed, cfg, q, res)
			}
			emit(l)
		}
	}
}

// TestReplay re-executes the run stored in SIM_REPLAY and reports what it found.
func TestReplay(t *testing.T) {
	path := os.Getenv("SIM_REPLAY")
	if path == "" {
		t.Skip("SIM_REPLAY not set")
	}
	b, err := os.ReadFile(path)
	if err != nil {
		t.Fatal(err)
	}
	var rf ReplayFile
	if err := json.Unmarshal(b, &rf); err != nil {
		t.Fatal(err)
	}
	verbose := os.Getenv("SIM_VERBOSE") != ""
	res := Run(t, rf.Config, rf.Program, RunOptions{Replay: rf.Trace, KeepEvents: verbose})
	if verbose {
		for _, e := range res.Events {
			fmt.Println(e)
		}
		for _, p := range res.Panics {
			fmt.Println("PANIC", p.Task, p.Value, "\n", p.Stack)
		}
		fmt.Println("LEAKED", res.Leaked)
	}
	l := lineOf(res, rf.Config)
	js, _ := json.Marshal(l)
	if outPath := os.Getenv("SIM_OUT"); outPath != "" {
		os.WriteFile(outPath, append(js, '\n'), 0o644)
	}
	fmt.Println(string(js))
	same := false
	for _, v := range res.Violations {
		if v.Property == rf.Property && v.Rule == rf.Rule {
			same = true
		}
	}
	switch {
	case res.Diverged != "":
		fmt.Println("REPLAY-DIVERGED", res.Diverged)
	case same:
		fmt.Printf("REPLAY-REPRODUCED property=%s rule=%s hash-match=%v\n", rf.Property, rf.Rule, res.LogHash == rf.LogHash)
		for _, v := range res.Violations {
			fmt.Printf("  %s.%s: %s\n", v.Property, v.Rule, v.Detail)
		}
	default:
		var vs []string
		for _, v := range res.Violations {
			vs = append(vs, v.Property+"."+v.Rule)
		}
		fmt.Printf("REPLAY-NOT-REPRODUCED recorded=%s.%s got=[%s]\n", rf.Property, rf.Rule, strings.Join(vs, ","))
	}
}

// TestMinimise shrinks the replay file SIM_REPLAY (program and schedule) and writes the result
// to SIM_MIN_OUT; the unminimised file is left alone when nothing smaller reproduces.
func TestMinimise(t *testing.T) {
	path := os.Getenv("SIM_REPLAY")
	outPath := os.Getenv("SIM_MIN_OUT")
	if path == "" || outPath == "" {
		t.Skip("SIM_REPLAY / SIM_MIN_OUT not set")
	}
	b, err := os.ReadFile(path)
	if err != nil {
		t.Fatal(err)
	}
	var rf ReplayFile
	if err := json.Unmarshal(b, &rf); err != nil {
		t.Fatal(err)
	}
	go func() { // wall-clock watchdog, outside any bubble
		time.Sleep(time.Duration(envInt("SIM_MIN_BUDGET_S", 60)+120) * time.Second)
		fmt.Println("WATCHDOG minimiser exceeded its wall-clock limit")
		os.Exit(3)
	}()
	rep, ok := Minimise(t, &rf, time.Duration(envInt("SIM_MIN_BUDGET_S", 60))*time.Second)
	js, _ := json.Marshal(rep)
	fmt.Println("MINIMISE", ok, string(js))
	if ok {
		out, _ := json.MarshalIndent(&rf, "", " ")
		if err := os.WriteFile(outPath, out, 0o644); err != nil {
			t.Fatal(err)
		}
	}
}
