package world

import (
	"os"
	"strings"
	"sync"
)

func init() {
	profileGen["C15"] = genC15
	profileAfterMain["C15"] = func(w *World) {
		// the verdict of this profile is the race detector's; the phases only make sure that
		// everything that was started also runs to completion (so that both sides of a race execute)
		w.defaultSettle()
		for _, m := range w.mgrs {
			if m.ready && !m.closed && w.Cfg.Seed%3 == 0 {
				mm := m
				w.spawnCloser(mm)
			}
		}
		w.grace("after-close", false, 5e9, 6000, nil)
	}
}

// genC15: the widest swarm - all call types from several threads of several managers,
// cancellations, configurations built concurrently with calls and with the node accessors,
// crashes and restarts, Close, handlers that release early and keep running.
func genC15(g *gen) {
	c := g.cfg
	c.NMgrs = pick(g.r, 1, 2, 2)
	c.FaultFree = false
	c.FreeTasks = true
	// Most runs hold library goroutines up on the fake clock (T6): a goroutine that sleeps across
	// driver steps is not ordered after them by the driver's own synchronisation. Either a random
	// subset of the statements with short stalls ("spray"), or one statement - preferably in the body
	// of a goroutine the library starts itself - with long ones ("targeted").
	switch x := g.r.Float64(); {
	case x < 0.15:
	case x < 0.5:
		c.StallPermille = pick(g.r, 3, 10, 30)
		c.StallHitPct = pick(g.r, 20, 50, 100)
		c.StallMaxShift = pick(g.r, 10, 14, 16) // up to 1 ms, 16 ms, 65 ms
	default:
		all, inGo := stallSites()
		if len(all) == 0 {
			break
		}
		switch y := g.r.Float64(); {
		case len(inGo) > 0 && y < 0.35:
			c.StallOnly = inGo[g.r.IntN(len(inGo))]
		case len(inGo) > 0 && y < 0.7:
			// all preferred sites of one function
			var fns []string
			seen := map[string]bool{}
			for _, st := range inGo {
				i, j := strings.Index(st, ":"), strings.Index(st, "(")
				k := strings.Index(st, ")")
				if i < 0 || j < 0 || k < j {
					continue
				}
				fn := st[:i] + st[j:k+1]
				if !seen[fn] {
					seen[fn] = true
					fns = append(fns, fn)
				}
			}
			c.StallOnly = "fn:" + fns[g.r.IntN(len(fns))]
		default:
			c.StallOnly = all[g.r.IntN(len(all))]
		}
		c.StallHitPct = pick(g.r, 50, 100)
		c.StallMinShift = pick(g.r, 10, 14, 16)
		c.StallMaxShift = c.StallMinShift + pick(g.r, 2, 4, 6) // up to 4 s
		c.FaultOnStall = g.chance(0.7)
	}
	if v := os.Getenv("SIM_STALL_ONLY"); v != "" {
		// development knob: every run targets this site
		c.StallPermille, c.StallOnly, c.StallHitPct, c.StallMinShift, c.StallMaxShift, c.FaultOnStall = 0, v, 100, 16, 22, true
	}
	g.genConfigs(true)
	n := c.NServers
	// the first configuration of each manager leaves some servers out; they join the node pool
	// later, concurrently with everything else (WithNewNodes)
	if n >= 3 {
		for m := range g.prog.Configs {
			k := 1 + g.r.IntN(2)
			all := g.prog.Configs[m][0]
			g.prog.Configs[m][0] = append([]int(nil), all[k:]...)
			for ci := 1; ci < len(g.prog.Configs[m]); ci++ {
				var keep []int
				for _, si := range g.prog.Configs[m][ci] {
					if si >= k {
						keep = append(keep, si)
					}
				}
				if len(keep) == 0 {
					keep = []int{k}
				}
				g.prog.Configs[m][ci] = keep
			}
		}
	}
	for i := 0; i < n; i++ {
		switch pick(g.r, "up", "up", "up", "crash-restart", "down-at-start") {
		case "crash-restart":
			a := 20 + g.r.IntN(300)
			g.prog.Faults = append(g.prog.Faults, &Fault{Kind: "crash", Srv: i, AtStep: a}, &Fault{Kind: "restart", Srv: i, AtStep: a + 1 + g.r.IntN(200)})
		case "down-at-start":
			c.Down = append(c.Down, i)
			g.prog.Faults = append(g.prog.Faults, &Fault{Kind: "restart", Srv: i, AtStep: 20 + g.r.IntN(300)})
		}
	}
	pool := stubsOf("rpc", "qc", "async", "corr", "cstream", "mcast", "ucast")
	for m := 0; m < c.NMgrs; m++ {
		// a third of the managers: a thread sends so much data to a node whose handler hangs (the
		// server stops reading) that the node's sender blocks inside a write, under contexts that end
		// - the per-request watcher then resets the stream while other calls, faults and reconnects go on
		if members := g.prog.Configs[m][0]; len(members) > 0 && g.chance(0.33) {
			flood := members[g.r.IntN(len(members))]
			th := &Thread{Mgr: m}
			kb := pick(g.r, 32, 64, 128)
			for sent := 0; sent < 300; sent += kb {
				s := pick(g.r, stubByName["Multicast"], stubByName["Unicast"], stubByName["QuorumCallAsync"])
				op := g.callOp(m, s, 0, 0)
				op.Cfg = 0
				op.Node = flood
				op.NoSendWait = true
				op.PadKB = kb
				op.Plans = map[int]*HandlerPlan{flood: {Reply: "hang"}}
				if op.QF != nil {
					op.QF = &QFSpec{Threshold: 1, NeedServer: -1}
				}
				switch pick(g.r, "cancel", "deadline", "bg") {
				case "cancel":
					op.Ctx, op.CancelW = "cancel", pick(g.r, 0.3, 0.1)
				case "deadline":
					op.Ctx, op.DeadlineMs = "deadline", pick(g.r, 10, 50, 300)
				default:
					op.Ctx = "bg"
				}
				th.Ops = append(th.Ops, op)
			}
			g.prog.Threads = append(g.prog.Threads, th)
			// and the connection may break by itself while the sender is stuck in that write
			for k := g.r.IntN(3); k > 0; k-- {
				g.prog.Faults = append(g.prog.Faults, &Fault{Kind: "reset", Srv: flood, Mgr: -1, AtStep: 20 + g.r.IntN(250)})
			}
		}
		nThreads := 2 + g.r.IntN(3)
		for t := 0; t < nThreads; t++ {
			th := &Thread{Mgr: m}
			nOps := 2 + g.r.IntN(7)
			for i := 0; i < nOps; i++ {
				x := g.r.Float64()
				switch {
				case x < 0.15:
					th.Ops = append(th.Ops, &Op{Kind: "newcfg", Stub: pick(g.r, "and", "except", "without", "ids", "newnodes"), Cfg: g.r.IntN(8), N: g.r.IntN(4)})
					continue
				case x < 0.3:
					th.Ops = append(th.Ops, &Op{Kind: "inspect", Cfg: g.r.IntN(8), N: g.r.IntN(6)})
					continue
				}
				s := pool[g.r.IntN(len(pool))]
				op := g.callOp(m, s, 0.05, 0.1)
				for _, p := range plansInOrder(op.Plans) {
					p.Release = pick(g.r, "", "", "early", "helper", "concurrent")
					if s.Kind == "cstream" {
						p.StreamK = g.r.IntN(4)
					}
				}
				if s.Kind == "corr" || s.Kind == "cstream" {
					op.QF = &QFSpec{NeedServer: -1, DoneAt: 1 + g.r.IntN(3)}
					op.Observers = []ObserverSpec{{Kind: "get", N: 2}, {Kind: "watch", Level: 1}}
				}
				g.ctxFor(op, 0.3, 0.2)
				if s.Kind == "mcast" || s.Kind == "ucast" {
					op.NoSendWait = g.chance(0.4)
				}
				th.Ops = append(th.Ops, op)
				if s.Kind == "async" {
					th.Ops = append(th.Ops, &Op{Kind: "get", Ref: len(th.Ops) - 1})
				}
			}
			g.prog.Threads = append(g.prog.Threads, th)
		}
		// now and then: two threads that do nothing but derive configurations from each other's results
		if g.chance(0.4) {
			for k := 0; k < 2; k++ {
				g.prog.Threads = append(g.prog.Threads, &Thread{Mgr: m, Ops: []*Op{
					{Kind: "newcfg", Stub: "and", Cfg: 0, N: 1}, {Kind: "barrier", Cfg: 1, N: 2}, {Kind: "cfgstorm", N: 4 + g.r.IntN(6), Cfg: g.r.IntN(6)}}})
			}
		}
		// a thread that keeps reading manager / node state through the accessors
		g.prog.Threads = append(g.prog.Threads, &Thread{Mgr: m, Ops: []*Op{{Kind: "inspect-loop", N: 200 + g.r.IntN(400), Cfg: g.r.IntN(8)}}})
		if g.chance(0.3) {
			g.prog.Faults = append(g.prog.Faults, &Fault{Kind: "close", Mgr: m, K: pick(g.r, 1, 2), AtStep: 100 + g.r.IntN(600)})
		}
	}
}

var stallSiteList struct {
	once       sync.Once
	all, inGo []string
}

// stallSites returns the stall sites the instrumenter has put into the library (T6): all of them,
// and the preferred ones: those inside the body of a `go func` literal ("@go") and those that use a
// receiver field after an explicit unlock in the same function ("@unl"). The list belongs to the build (SIM_STALL_SITES).
func stallSites() (all, inGo []string) {
	stallSiteList.once.Do(func() {
		b, err := os.ReadFile(os.Getenv("SIM_STALL_SITES"))
		if err != nil {
			return
		}
		for _, l := range strings.Split(string(b), "\n") {
			if l == "" {
				continue
			}
			stallSiteList.all = append(stallSiteList.all, l)
			if strings.HasSuffix(l, "@go") || strings.HasSuffix(l, "@unl") {
				stallSiteList.inGo = append(stallSiteList.inGo, l)
			}
		}
	})
	return stallSiteList.all, stallSiteList.inGo
}
