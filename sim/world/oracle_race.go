package world

func init() {
	profileGen["C15"] = genC15
	profileAfterMain["C15"] = func(w *World) {
		// the verdict of this profile is the race detector's; the phases only make sure that
		// everything that was started also runs to completion (so that both sides of a race execute)
		w.defaultSettle()
		for _, m := range w.mgrs {
			if m.ready && !m.closed && w.Cfg.Seed%3 == 0 {
				mm := m
				w.spawnCloser(mm)
			}
		}
		w.grace("after-close", false, 5e9, 6000, nil)
	}
}

// genC15: the widest swarm - all call types from several threads of several managers,
// cancellations, configurations built concurrently with calls and with the node accessors,
// crashes and restarts, Close, handlers that release early and keep running.
func genC15(g *gen) {
	c := g.cfg
	c.NMgrs = pick(g.r, 1, 2, 2)
	c.FaultFree = false
	c.FreeTasks = true
	// three runs in four hold library goroutines up at a random subset of their statements (T6): a
	// goroutine that sleeps on the fake clock across driver steps is not ordered after them
	if g.chance(0.75) {
		c.StallPermille = pick(g.r, 3, 10, 30)
		c.StallHitPct = pick(g.r, 20, 50, 100)
		c.StallMaxShift = pick(g.r, 10, 14, 16) // up to 1 ms, 16 ms, 65 ms
	}
	c.SendBuffer = pick(g.r, 0, 1, 16)
	g.genConfigs(true)
	n := c.NServers
	// the first configuration of each manager leaves some servers out; they join the node pool
	// later, concurrently with everything else (WithNewNodes)
	if n >= 3 {
		for m := range g.prog.Configs {
			k := 1 + g.r.IntN(2)
			all := g.prog.Configs[m][0]
			g.prog.Configs[m][0] = append([]int(nil), all[k:]...)
			for ci := 1; ci < len(g.prog.Configs[m]); ci++ {
				var keep []int
				for _, si := range g.prog.Configs[m][ci] {
					if si >= k {
						keep = append(keep, si)
					}
				}
				if len(keep) == 0 {
					keep = []int{k}
				}
				g.prog.Configs[m][ci] = keep
			}
		}
	}
	for i := 0; i < n; i++ {
		switch pick(g.r, "up", "up", "up", "crash-restart", "down-at-start") {
		case "crash-restart":
			a := 20 + g.r.IntN(300)
			g.prog.Faults = append(g.prog.Faults, &Fault{Kind: "crash", Srv: i, AtStep: a}, &Fault{Kind: "restart", Srv: i, AtStep: a + 1 + g.r.IntN(200)})
		case "down-at-start":
			c.Down = append(c.Down, i)
			g.prog.Faults = append(g.prog.Faults, &Fault{Kind: "restart", Srv: i, AtStep: 20 + g.r.IntN(300)})
		}
	}
	pool := stubsOf("rpc", "qc", "async", "corr", "cstream", "mcast", "ucast")
	for m := 0; m < c.NMgrs; m++ {
		nThreads := 2 + g.r.IntN(3)
		for t := 0; t < nThreads; t++ {
			th := &Thread{Mgr: m}
			nOps := 2 + g.r.IntN(7)
			for i := 0; i < nOps; i++ {
				x := g.r.Float64()
				switch {
				case x < 0.15:
					th.Ops = append(th.Ops, &Op{Kind: "newcfg", Stub: pick(g.r, "and", "except", "without", "ids", "newnodes"), Cfg: g.r.IntN(8), N: g.r.IntN(4)})
					continue
				case x < 0.3:
					th.Ops = append(th.Ops, &Op{Kind: "inspect", Cfg: g.r.IntN(8), N: g.r.IntN(6)})
					continue
				}
				s := pool[g.r.IntN(len(pool))]
				op := g.callOp(m, s, 0.05, 0.1)
				for _, p := range plansInOrder(op.Plans) {
					p.Release = pick(g.r, "", "", "early", "helper", "concurrent")
					if s.Kind == "cstream" {
						p.StreamK = g.r.IntN(4)
					}
				}
				if s.Kind == "corr" || s.Kind == "cstream" {
					op.QF = &QFSpec{NeedServer: -1, DoneAt: 1 + g.r.IntN(3)}
					op.Observers = []ObserverSpec{{Kind: "get", N: 2}, {Kind: "watch", Level: 1}}
				}
				g.ctxFor(op, 0.3, 0.2)
				if s.Kind == "mcast" || s.Kind == "ucast" {
					op.NoSendWait = g.chance(0.4)
				}
				th.Ops = append(th.Ops, op)
				if s.Kind == "async" {
					th.Ops = append(th.Ops, &Op{Kind: "get", Ref: len(th.Ops) - 1})
				}
			}
			g.prog.Threads = append(g.prog.Threads, th)
		}
		// now and then: two threads that do nothing but derive configurations from each other's results
		if g.chance(0.4) {
			for k := 0; k < 2; k++ {
				g.prog.Threads = append(g.prog.Threads, &Thread{Mgr: m, Ops: []*Op{
					{Kind: "newcfg", Stub: "and", Cfg: 0, N: 1}, {Kind: "barrier", Cfg: 1, N: 2}, {Kind: "cfgstorm", N: 4 + g.r.IntN(6), Cfg: g.r.IntN(6)}}})
			}
		}
		// a thread that keeps reading manager / node state through the accessors
		g.prog.Threads = append(g.prog.Threads, &Thread{Mgr: m, Ops: []*Op{{Kind: "inspect-loop", N: 200 + g.r.IntN(400), Cfg: g.r.IntN(8)}}})
		if g.chance(0.3) {
			g.prog.Faults = append(g.prog.Faults, &Fault{Kind: "close", Mgr: m, K: pick(g.r, 1, 2), AtStep: 100 + g.r.IntN(600)})
		}
	}
}
