package world

import (
	"context"
	"errors"
	"fmt"
	"sort"
	"time"

	"github.com/relab/gorums"
	"google.golang.org/protobuf/proto"

	"gorumsim/simrt"
)

func init() {
	profileGen["C11"] = genC11
	profileAfterMain["C11"] = afterC11
}

func genC11(g *gen) {
	c := g.cfg
	c.NMgrs = 1
	g.genConfigs(false)
	pool := stubsOf("corr", "cstream")
	nThreads := 1 + g.r.IntN(2)
	if c.NServers >= 2 && g.chance(0.12) {
		genAllFail(g)
		return
	}
	for t := 0; t < nThreads; t++ {
		th := &Thread{Mgr: 0}
		nOps := 1 + g.r.IntN(3)
		for i := 0; i < nOps; i++ {
			s := pool[g.r.IntN(len(pool))]
			op := g.callOp(0, s, 0.15, 0.15)
			total := 0
			for _, si := range g.prog.Configs[0][op.Cfg] {
				p := op.Plans[si]
				if p == nil && !s.ReqEmpty {
					p = &HandlerPlan{Reply: "ok", Late: g.chance(0.5)}
					op.Plans[si] = p
				}
				if s.Kind == "cstream" && p != nil {
					p.StreamK = g.r.IntN(5)
					if p.Reply == "err" {
						p.StreamEnd, p.Reply = "err", "ok"
					}
					if p.Reply == "hang" {
						p.StreamEnd, p.Reply = "hang", "ok"
					}
					total += p.StreamK
				} else {
					total++
				}
			}
			// level plan: monotone, plateaus, decreasing, jumping
			var levels []int
			cur := pick(g.r, -1, 0, 0, 1)
			for k := 0; k < total+2; k++ {
				switch pick(g.r, "up", "up", "same", "down", "jump") {
				case "up":
					cur++
				case "down":
					cur--
				case "jump":
					cur += 2 + g.r.IntN(3)
				}
				levels = append(levels, cur)
			}
			op.QF = &QFSpec{NeedServer: -1, Levels: levels, Slow: g.chance(0.3)}
			switch pick(g.r, "done", "done", "never", "late") {
			case "done":
				op.QF.DoneAt = 1 + g.r.IntN(max(1, total))
			case "late":
				op.QF.DoneAt = total + 1 + g.r.IntN(3) // never reached: ends by exhaustion (or never, for streams)
			case "never":
				op.QF.DoneAt = 1 << 20
			}
			g.ctxFor(op, 0.2, 0.1)
			// observers
			nObs := 1 + g.r.IntN(4)
			maxL := 0
			for _, l := range levels {
				maxL = max(maxL, l)
			}
			for o := 0; o < nObs; o++ {
				switch pick(g.r, "get", "get", "watch", "watch") {
				case "get":
					op.Observers = append(op.Observers, ObserverSpec{Kind: "get", N: 1 + g.r.IntN(4)})
				case "watch":
					op.Observers = append(op.Observers, ObserverSpec{Kind: "watch", Level: -1 + g.r.IntN(maxL+3)})
				}
			}
			th.Ops = append(th.Ops, op)
		}
		g.prog.Threads = append(g.prog.Threads, th)
	}
	if g.chance(0.3) {
		// servers that crash (and stay down) or connections that are reset in the middle of a call
		c.FaultFree = false
		for k := 1 + g.r.IntN(c.NServers); k > 0; k-- {
			g.prog.Faults = append(g.prog.Faults, &Fault{Kind: pick(g.r, "crash", "crash", "reset"), Srv: g.r.IntN(c.NServers), Mgr: -1, AtStep: 30 + g.r.IntN(400)})
		}
	}
}

// corrState is a published state of a correctable call.
type corrState struct {
	Val   proto.Message
	Level int
	K     int // QF invocation that caused it (0 = initial)
}

// expectedPublished returns the sequence of states the call must have published, given the
// quorum-function results recorded so far (only invocations that have returned), and whether a
// quorum-function invocation reported done.
func expectedPublished(c *Call) (states []corrState, done bool) {
	states = []corrState{{Val: nil, Level: gorums.LevelNotSet, K: 0}}
	high := gorums.LevelNotSet
	for k, inv := range c.QFInv {
		if inv.EndSeq == 0 {
			break
		}
		if inv.Quorum {
			// levels never decrease, also not with the final reply
			states = append(states, corrState{Val: inv.Ret, Level: max(inv.Level, high), K: k + 1})
			return states, true
		}
		if inv.Level > high {
			high = inv.Level
			states = append(states, corrState{Val: inv.Ret, Level: inv.Level, K: k + 1})
		}
	}
	return states, false
}

// sampleCorrectables takes one typed-Get sample of every correctable call from a fresh task
// and runs a fair phase until the samplers are done.
func (w *World) sampleCorrectables(tag string) map[*Call]Observation {
	out := map[*Call]Observation{}
	n := 0
	doneN := 0
	for _, c := range w.calls[1:] {
		if c.res.corr == nil {
			continue
		}
		c := c
		n++
		simrt.GoNamed(fmt.Sprintf("sample-%s/%d", tag, c.Tok), "observer", func() {
			o := Observation{Kind: "get"}
			w.mu.Lock()
			o.InvSeq = w.nextSeq()
			w.mu.Unlock()
			func() {
				defer func() {
					if r := recover(); r != nil {
						o.Panic = fmt.Sprint(r)
					}
				}()
				r, l, err := c.res.typedGet()
				o.Ret, o.Level, o.Err = r, l, err
			}()
			w.mu.Lock()
			o.RetSeq = w.nextSeq()
			out[c] = o
			doneN++
			w.mu.Unlock()
		})
	}
	w.grace("sample-"+tag, false, time.Second, 4000, func() bool {
		w.mu.Lock()
		defer w.mu.Unlock()
		return doneN >= n
	})
	return out
}

func afterC11(w *World) {
	// grace: fair, no gate opens - calls whose remaining servers hang do not complete here
	w.grace("grace", false, 5*time.Second, 8000, nil)
	mid := w.sampleCorrectables("mid")
	for _, c := range w.calls[1:] {
		if c == nil || c.res.corr == nil {
			continue
		}
		w.checkCorrPublished(c, mid, "while the call is still open")
	}
	w.defaultSettle()
	fin := w.sampleCorrectables("fin")
	for _, c := range w.calls[1:] {
		if c == nil || c.res.corr == nil {
			continue
		}
		w.checkCorrPublished(c, fin, "after the settle phase")
		w.checkCorrHistory(c, fin)
	}
}

// checkCorrPublished: at a quiescent point the latest published state must be visible through
// Get and every watcher at or below the published level must have been released - without the
// call having to complete.
func (w *World) checkCorrPublished(c *Call, samples map[*Call]Observation, when string) {
	o, ok := samples[c]
	if !ok {
		return
	}
	id := fmt.Sprintf("call t%d (%s)", c.Tok, c.Stub)
	if o.Panic != "" {
		w.rule("C11.typed-get-never-panics", false)
		w.violate("C11", "typed-get-panic", "", "%s: typed Get panicked %s: %s", id, when, o.Panic)
		return
	}
	w.rule("C11.typed-get-never-panics", true)
	states, qfDone := expectedPublished(c)
	last := states[len(states)-1]
	if c.DoneSeq != 0 && !qfDone {
		// completed by exhaustion or context end: level must be the highest published one, error set
		okLevel := o.Level == last.Level
		w.rule("C11.level-after-error-completion", okLevel)
		if !okLevel {
			w.violate("C11", "final-level", "", "%s completed without the quorum function reporting done; Get shows level %d, the highest level the quorum function reported was %d", id, o.Level, last.Level)
		}
		if o.Err == nil {
			w.violate("C11", "completion-without-reason", "", "%s is done although its quorum function never reported done, and Get reports no error", id)
		}
		return
	}
	if c.DoneSeq == 0 && qfDone {
		w.rule("C11.done-when-qf-done", false)
		w.violate("C11", "not-done", "", "%s: the quorum function reported done (invocation %d) but the call has not completed %s", id, last.K, when)
		return
	}
	okState := o.Level == last.Level && sameMsg(o.Ret, last.Val) && o.Err == nil
	w.rule("C11.latest-level-and-value-visible", okState)
	if !okState {
		key := "stale"
		switch {
		case last.K == 0 && o.Level != gorums.LevelNotSet:
			key = "initial-level"
		case o.Level == last.Level && !sameMsg(o.Ret, last.Val):
			key = "wrong-value"
		case o.Level < last.Level:
			key = "level-not-published"
		}
		w.violate("C11", "published-state", key, "%s: %s Get shows (value %s, level %d, err %v) but the state to be published is (value %s, level %d) from quorum function invocation %d of %d", id, when, descr(o.Ret), o.Level, o.Err, descr(last.Val), last.Level, last.K, len(c.QFInv))
	}
	// watchers
	closed := map[int]bool{}
	for _, ob := range c.Observed {
		if ob.Kind == "watch-closed" {
			closed[ob.WatchLevel] = true
		}
	}
	started := map[int]bool{}
	for _, ev := range c.watchStarted {
		started[ev] = true
	}
	var lv []int
	for l := range started {
		lv = append(lv, l)
	}
	sort.Ints(lv)
	for _, l := range lv {
		if l <= last.Level || c.DoneSeq != 0 {
			w.rule("C11.watchers-released", closed[l])
			if !closed[l] {
				w.violate("C11", "watcher-not-released", "", "%s: Watch(%d) has not been released %s although level %d has been reported (done=%v)", id, l, when, last.Level, c.DoneSeq != 0)
			}
		} else {
			w.rule("C11.watchers-not-released-early", !closed[l])
			if closed[l] {
				w.violate("C11", "watcher-released-early", "", "%s: Watch(%d) was released although the highest reported level is %d and the call is not done", id, l, last.Level)
			}
		}
	}
}

// checkCorrHistory checks all observer samples of a call for monotonic levels, values that the
// quorum function really returned, finality of done and a justified completion.
func (w *World) checkCorrHistory(c *Call, fin map[*Call]Observation) {
	id := fmt.Sprintf("call t%d (%s)", c.Tok, c.Stub)
	obs := append([]Observation(nil), c.Observed...)
	if o, ok := fin[c]; ok {
		obs = append(obs, o)
	}
	sort.Slice(obs, func(i, j int) bool { return obs[i].RetSeq < obs[j].RetSeq })
	qfVals := map[proto.Message]*QFInvocation{}
	pubLevel := map[*QFInvocation]int{}
	hi := gorums.LevelNotSet
	for _, inv := range c.QFInv {
		if inv.Ret != nil {
			qfVals[inv.Ret] = inv
		}
		pubLevel[inv] = inv.Level
		if inv.Quorum {
			pubLevel[inv] = max(inv.Level, hi)
		}
		hi = max(hi, inv.Level)
	}
	for i, o := range obs {
		if o.Panic != "" {
			w.rule("C11.typed-get-never-panics", false)
			w.violate("C11", "typed-get-panic", "", "%s: typed Get panicked: %s", id, o.Panic)
			continue
		}
		// value/level pairs come from one quorum function invocation
		if o.Ret != nil {
			inv := qfVals[o.Ret]
			okv := inv != nil && pubLevel[inv] == o.Level
			w.rule("C11.value-is-qf-value", okv)
			if inv == nil {
				w.violate("C11", "value-not-from-qf", "", "%s: Get returned value %s (level %d), which no invocation of the quorum function returned", id, descr(o.Ret), o.Level)
			} else if pubLevel[inv] != o.Level {
				w.violate("C11", "value-level-mismatch", "", "%s: Get returned value %s with level %d, but the quorum function returned that value with level %d", id, descr(o.Ret), o.Level, inv.Level)
			}
		} else if o.Err == nil {
			// no value, no error: nothing published yet
			okInit := o.Level == gorums.LevelNotSet
			w.rule("C11.starts-at-LevelNotSet", okInit)
			if !okInit {
				w.violate("C11", "published-state", "initial-level", "%s: Get shows no reply and level %d; a correctable without a reply must be at LevelNotSet (%d)", id, o.Level, gorums.LevelNotSet)
			}
		}
		// monotonic levels between non-overlapping observations
		for j := 0; j < i; j++ {
			p := obs[j]
			if p.Panic != "" || p.RetSeq >= o.InvSeq {
				continue
			}
			w.rule("C11.levels-never-decrease", o.Level >= p.Level)
			if o.Level < p.Level {
				w.violate("C11", "level-decreased", "", "%s: an observation that finished at seq %d saw level %d, a later one (started at seq %d) saw level %d", id, p.RetSeq, p.Level, o.InvSeq, o.Level)
			}
			// finality: after a done-closed observation nothing changes
			if p.Kind == "done-closed" {
				same := sameMsg(p.Ret, o.Ret) && p.Level == o.Level && fmt.Sprint(p.Err) == fmt.Sprint(o.Err)
				w.rule("C11.done-is-final", same)
				if !same {
					w.violate("C11", "changed-after-done", "", "%s: Get returned (%s, %d, %v) when Done was released and (%s, %d, %v) later", id, descr(p.Ret), p.Level, p.Err, descr(o.Ret), o.Level, o.Err)
				}
			}
		}
		// an error is only ever shown together with completion for that reason
		if o.Err != nil {
			switch {
			case errors.Is(o.Err, gorums.Incomplete):
			case errors.Is(o.Err, context.Canceled), errors.Is(o.Err, context.DeadlineExceeded):
				ok := c.CtxEndSeq != 0 && c.CtxEndSeq < o.RetSeq
				w.rule("C11.ctx-error-justified", ok)
				if !ok {
					w.violate("C11", "ctx-error-unjustified", "", "%s: Get reports %v although the context had not ended", id, o.Err)
				}
			default:
				w.violate("C11", "other-error", "", "%s: Get reports %v, which is neither Incomplete nor the context's error", id, o.Err)
			}
		}
	}
	// completion
	_, qfDone := expectedPublished(c)
	if c.DoneSeq != 0 && !qfDone {
		o, ok := fin[c]
		if ok && o.Panic == "" {
			justified := o.Err != nil
			if errors.Is(o.Err, gorums.Incomplete) && c.Info.Kind == "cstream" {
				// a stream call ends by exhaustion only when every node failed
				nerr := 0
				if m := incompleteRe.FindStringSubmatch(o.Err.Error()); m != nil {
					fmt.Sscan(m[1], &nerr)
				}
				justified = nerr == len(c.Targets)
				// ... each of them exactly once
				ids := map[uint32]bool{}
				for _, e := range parseNodeErrors(o.Err.Error()) {
					ids[e.ID] = true
				}
				if len(ids) != len(c.Targets) {
					justified = false
				}
				// and in a fault-free run every reply that the handlers streamed before they failed
				// has been shown to the quorum function by then (replies and the final error of a
				// node travel over one stream, in order)
				if justified && w.Cfg.FaultFree && w.noContextEndedEarly() {
					streamed := 0
					for _, si := range c.Targets {
						for _, h := range w.handlersFor(c, si) {
							streamed += len(h.Stamps) - h.SendFailed
						}
					}
					ok := len(c.QFInv) == streamed
					w.rule("C11.streamed-replies-reach-the-quorum-function", ok)
					if !ok {
						w.violate("C11", "streamed-replies-lost", "", "%s completed because every node had failed; the handlers had streamed %d replies before, but the quorum function was shown only %d", id, streamed, len(c.QFInv))
					}
				}
			}
			w.rule("C11.completion-justified", justified)
			if !justified {
				w.violate("C11", "completion-unjustified", "", "%s completed with (%v) but neither did the quorum function report done, nor had every node answered / failed, nor had the context ended", id, o.Err)
			}
		}
	}
	if w.Cfg.AllFailScenario && c.Info.Kind == "cstream" && c.CtxKind == "bg" && !c.IsProbe {
		// every targeted node has failed for this call (handlers ended their streams with an
		// error; the node that was down could not be sent the request): the call must be complete
		w.rule("C11.stream-completes-when-all-nodes-failed", c.DoneSeq != 0)
		if c.DoneSeq == 0 {
			w.violate("C11", "stream-not-completed", "all-failed", "%s has not completed although every targeted node has failed for it (node %v was down and its request could not be sent; the others ended their streams with an error): %s", id, w.Cfg.Down, w.stuckReport())
		}
	}
	if c.DoneSeq == 0 && c.CtxKind == "bg" && c.Info.Kind == "cstream" && len(c.Targets) > 0 {
		// a server-stream call completes when every node has failed: here, when every targeted
		// server has crashed (and stayed down) after the call was made
		allDown := true
		for _, si := range c.Targets {
			if w.servers[si].Up {
				allDown = false
			}
		}
		if allDown {
			w.rule("C11.stream-completes-when-all-nodes-failed", false)
			w.violate("C11", "stream-not-completed", "", "%s has not completed although every targeted server has crashed: %s", id, w.stuckReport())
		}
	} else if c.DoneSeq != 0 && c.Info.Kind == "cstream" && c.CtxKind == "bg" {
		w.rule("C11.stream-completes-when-all-nodes-failed", true)
	}
	if c.DoneSeq == 0 && c.CtxKind == "bg" && c.Info.Kind == "corr" && c.ReqVal != "" {
		// a non-stream correctable must complete once every node has answered
		key := w.classifyPending(c)
		if pendingOwner(key) == "C02" {
			w.violate("C11", "never-completed", key, "%s has not completed although every node has answered: %s", id, w.explainPending(c))
		}
	}
}

// noContextEndedEarly reports whether no context of the run ended before its call was complete (a
// cancellation while requests or replies are on their way makes the library reset the shared
// stream, which legitimately loses what is in flight).
func (w *World) noContextEndedEarly() bool {
	for _, c := range w.calls[1:] {
		if c.InvokeSeq != 0 && c.CtxEndSeq != 0 && (c.DoneSeq == 0 || c.CtxEndSeq < c.DoneSeq) {
			return false
		}
	}
	return true
}

// genAllFail: every node fails, one of them late: a server-stream call with a Background context on a
// configuration with one node that is down (blocking dial, long timeout - its sender reports the
// failure only after a second) while the other nodes stream a few replies and then end their stream
// with an error, and the quorum function stalls (the reply channel is full most of the time). The
// call must complete once the last node has failed (C11; and nobody is left waiting for a failed
// node, C07).
func genAllFail(g *gen) {
	c := g.cfg

	c.WithBlock, c.DialTimeoutMs, c.FaultFree = true, 1000, false
	c.TickP = 0 // the clock moves only when nothing else can: the replies pile up before the dial times out
	down := g.r.IntN(c.NServers)
	c.Down = []int{down}
	cs := stubsOf("cstream")
	s := cs[g.r.IntN(len(cs))]
	for s.ReqEmpty {
		s = cs[g.r.IntN(len(cs))]
	}
	op := g.callOp(0, s, 0, 0)
	op.Cfg, op.Ctx, op.PerNode = 0, "bg", nil
	if s.PerNode {
		op.PerNode = &PerNodeSpec{}
	}
	op.Plans = map[int]*HandlerPlan{}
	for _, si := range g.prog.Configs[0][0] {
		op.Plans[si] = &HandlerPlan{Reply: "ok", StreamK: 2 + g.r.IntN(4), StreamEnd: "err", Code: 10, Msg: "stream-aborted"}
	}
	op.QF = &QFSpec{NeedServer: -1, DoneAt: 1 << 20, Slow: true, StallMs: 1500, Levels: []int{1, 2, 3, 4, 5, 6, 7, 8, 9, 10, 11, 12, 13, 14, 15, 16, 17, 18, 19, 20}}
	op.Observers = nil
	// the thread waits for the call to complete, so that the adversarial phase lasts that long
	g.prog.Threads = append(g.prog.Threads, &Thread{Mgr: 0, Ops: []*Op{op, {Kind: "wait", Ref: 0}}})
	c.AllFailScenario = true
}
