package world

import (
	"fmt"
	"regexp"
	"runtime"
	"sort"
	"strings"
)

// GInfo summarises one goroutine of the current bubble.
type GInfo struct {
	ID      string
	State   string
	Frames  []string // function names, innermost first
	Lib     string   // innermost frame in package gorums ("" if none)
	LibLine string
	Created string
}

var gHeader = regexp.MustCompile(`^goroutine (\d+) \[([^\]]*)\]:`)

// goroutines returns the goroutines of the calling goroutine's bubble.
func goroutines() []GInfo {
	buf := make([]byte, 1<<20)
	for {
		n := runtime.Stack(buf, true)
		if n < len(buf) {
			buf = buf[:n]
			break
		}
		buf = make([]byte, 2*len(buf))
	}
	blocks := strings.Split(string(buf), "\n\n")
	myBubble := ""
	var out []GInfo
	for i, b := range blocks {
		lines := strings.Split(strings.TrimSpace(b), "\n")
		if len(lines) == 0 {
			continue
		}
		m := gHeader.FindStringSubmatch(lines[0])
		if m == nil {
			continue
		}
		state := m[2]
		bubble := ""
		if j := strings.Index(state, "synctest bubble "); j >= 0 {
			bubble = strings.TrimSpace(state[j+len("synctest bubble "):])
			if k := strings.IndexAny(bubble, ",]"); k >= 0 {
				bubble = bubble[:k]
			}
		}
		if i == 0 {
			myBubble = bubble
		}
		if bubble != myBubble || i == 0 {
			continue
		}
		g := GInfo{ID: m[1], State: state}
		for k := 1; k+1 < len(lines); k += 2 {
			fn := lines[k]
			if strings.HasPrefix(fn, "created by ") {
				g.Created = strings.TrimPrefix(fn, "created by ")
				if p := strings.Index(g.Created, " in goroutine"); p >= 0 {
					g.Created = g.Created[:p]
				}
				break
			}
			if p := strings.LastIndexByte(fn, '('); p > 0 {
				fn = fn[:p]
			}
			g.Frames = append(g.Frames, fn)
			if g.Lib == "" && strings.HasPrefix(fn, "github.com/relab/gorums.") {
				g.Lib = strings.TrimPrefix(fn, "github.com/relab/gorums.")
				loc := strings.TrimSpace(lines[k+1])
				if p := strings.IndexByte(loc, ' '); p > 0 {
					loc = loc[:p]
				}
				if p := strings.LastIndexByte(loc, '/'); p >= 0 {
					loc = loc[p+1:]
				}
				g.LibLine = loc
			}
		}
		out = append(out, g)
	}
	return out
}

// libGoroutines returns a sorted multiset description of goroutines that have a gorums frame
// (client = true: exclude server-side functions).
func libGoroutines() []string {
	var out []string
	for _, g := range goroutines() {
		if g.Lib == "" {
			continue
		}
		out = append(out, g.Lib)
	}
	sort.Strings(out)
	return out
}

// stuckReport describes what every blocked library goroutine and parked task waits for.
func (w *World) stuckReport() string {
	var parts []string
	for _, ti := range w.sched.Parked() {
		if ti.Enabled {
			continue
		}
		if strings.HasPrefix(ti.Site, "h:hang") {
			continue
		}
		parts = append(parts, fmt.Sprintf("task %s (%s) waits at %s for %s", ti.Name, ti.Role, ti.Site, ti.Wait))
	}
	for _, g := range goroutines() {
		if g.Lib == "" || len(g.Frames) == 0 {
			continue
		}
		if strings.Contains(g.Frames[0], "simrt") {
			continue // parked at a scheduling point: listed above if disabled
		}
		parts = append(parts, fmt.Sprintf("goroutine in %s (%s) blocked in %s [%s]", g.Lib, g.LibLine, shortFn(g.Frames[0]), g.State))
	}
	sort.Strings(parts)
	return strings.Join(parts, "; ")
}

func shortFn(f string) string {
	if p := strings.LastIndexByte(f, '/'); p >= 0 {
		f = f[p+1:]
	}
	return f
}
