package world

import (
	"crypto/sha256"
	"encoding/hex"
	"fmt"
	"math/rand/v2"
	"os"
	"runtime"
	"sort"
	"strings"
	"testing"
	"testing/synctest"
	"time"

	"google.golang.org/protobuf/proto"

	"gorumsim/simnet"
	"gorumsim/simrt"
	"gorumsim/simrt/dsync"
)

// Result is what one run reports.
type Result struct {
	Seed       uint64
	Profile    string
	Violations []Violation
	Notes      []string
	Trace      []string
	Steps      int
	SimTime    time.Duration
	Faults     map[string]int
	NetStats   simnet.Stats
	Probes     map[string]int
	Rules      map[string]*RuleStat
	LogHash    string
	SchedSig   string
	Nontrivial bool
	Tasks      int
	Unnamed    int
	Calls      int
	Diverged   string
	Deadlock   string
	Panics     []simrt.PanicRec
	Events     []Event `json:"-"`
	Sample     any
	StateSigs  []string `json:"-"`
	Wall       time.Duration
	Leaked     []string
	Remaining  []string // goroutines of the bubble still alive after teardown
	Internal   string   // harness-internal error (exit 2 material)
}

// RunOptions selects how a run is driven.
type RunOptions struct {
	// Replay, if non-nil, is the recorded main-phase trace to follow.
	Replay []string
	// Lenient (minimiser): recorded choices that are not enabled are skipped instead of
	// being a divergence; a task step is matched by task name when its site differs.
	Lenient    bool
	KeepEvents bool
	Profile    bool // record site hits
}

// Run executes one simulated run inside a synctest bubble.
func Run(t *testing.T, cfg RunConfig, prog *Program, opt RunOptions) (res *Result) {
	res = &Result{Seed: cfg.Seed, Profile: cfg.Profile}
	t0 := time.Now()
	var w *World
	func() {
		defer func() {
			if r := recover(); r != nil {
				msg := fmt.Sprint(r)
				if strings.Contains(msg, "deadlock") || strings.Contains(msg, "blocked goroutines remain") {
					res.Deadlock = msg
				} else {
					buf := make([]byte, 32<<10)
					n := runtime.Stack(buf, false)
					res.Internal = msg + "\n" + string(buf[:n])
				}
			}
		}()
		synctest.Test(t, func(t *testing.T) {
			w = newWorld(cfg, prog)
			w.run(opt, res)
		})
	}()
	res.Wall = time.Since(t0)
	return res
}

var debugFair = os.Getenv("SIM_DEBUG_FAIR") != ""

// modeL1: the gorums package is compiled without scheduling points (race-detector runs); its
// goroutines wait for locks by polling on the fake clock, so the driver lets a little time pass
// after every action.
var modeL1 = strings.HasPrefix(os.Getenv("SIM_MODE"), "L1")

func quiesce() {
	if modeL1 {
		sleepPast(30 * time.Millisecond)
	}
	synctest.Wait()
}

func newWorld(cfg RunConfig, prog *Program) *World {
	w := &World{Cfg: cfg, Prog: prog, byReq: map[proto.Message]*Call{}, probes: map[string]int{}, rules: map[string]*RuleStat{}, faults: map[string]int{}}
	w.calls = []*Call{nil} // tokens start at 1
	w.rng = rand.New(rand.NewPCG(cfg.Seed, 0x9e3779b97f4a7c15))
	curWorld.Store(w)
	return w
}

func (w *World) run(opt RunOptions, res *Result) {
	w.start = time.Now()
	w.sched = simrt.NewSched(w.Cfg.Seed)
	w.sched.Profile = opt.Profile
	if w.Cfg.FreeTasks {
		w.sched.FreeRun()
	}
	w.net = simnet.New()
	w.net.Cap = w.Cfg.NetCap
	w.net.Log = func(kind string, attrs ...any) {
		w.mu.Lock()
		w.events = append(w.events, Event{Seq: w.nextSeq(), Step: w.step, Kind: "net-" + kind, Attr: fmt.Sprint(attrs...)})
		w.mu.Unlock()
	}
	w.armSiteFaults()
	w.phase = "setup"
	if modeL1 && w.Cfg.StallOnly != "" {
		w.stalls = &dsync.StallConfig{Seed: w.Cfg.Seed, Only: w.Cfg.StallOnly, HitPct: uint32(w.Cfg.StallHitPct), MinShift: uint32(w.Cfg.StallMinShift), MaxShift: uint32(w.Cfg.StallMaxShift), Budget: 40}
		dsync.SetStalls(w.stalls)
	} else if modeL1 && w.Cfg.StallPermille > 0 {
		// T6 (race-detector runs): hold goroutines of the library up at a per-run subset of its statements
		w.stalls = &dsync.StallConfig{Seed: w.Cfg.Seed, Permille: uint32(w.Cfg.StallPermille), HitPct: uint32(w.Cfg.StallHitPct), MaxShift: uint32(w.Cfg.StallMaxShift), Budget: 300}
		dsync.SetStalls(w.stalls)
	}

	down := map[int]bool{}
	for _, d := range w.Cfg.Down {
		down[d] = true
	}
	for _, b := range w.Cfg.Blackhole {
		w.net.SetBlackhole(addrOf(b), true)
	}
	for i := 0; i < w.Cfg.NServers; i++ {
		s := &Server{Idx: i, Addr: addrOf(i), ID: nodeID(i)}
		w.servers = append(w.servers, s)
		if !down[i] {
			w.startServer(s)
		}
	}
	for i := 0; i < w.Cfg.NMgrs; i++ {
		m := &Mgr{Idx: i, Name: fmt.Sprintf("c%d", i)}
		w.mgrs = append(w.mgrs, m)
		simrt.GoNamed(m.Name+"/setup", "setup", func() {
			defer func() {
				if r := recover(); r != nil {
					simrt.RecordPanic(r)
				}
			}()
			w.setupManager(m)
		})
	}
	w.threadsAll = len(w.Prog.Threads)
	for ti, th := range w.Prog.Threads {
		ti, th := ti, th
		simrt.GoNamed(fmt.Sprintf("c%d/t%d", th.Mgr, ti), "thread", func() { w.runThread(ti, th) })
	}

	// ---- main phase
	w.phase = "main"
	switch {
	case opt.Replay != nil:
		w.chooser = &replayChooser{trace: opt.Replay, lenient: opt.Lenient}
	case w.Cfg.Strategy == "pct":
		w.chooser = newPCT(w.rng, w.Cfg.PCTDepth, max(50, w.Cfg.MaxSteps/2))
	case w.Cfg.Strategy == "sticky":
		w.chooser = &randomChooser{sticky: 1 - w.Cfg.PreemptP}
	default:
		w.chooser = &randomChooser{}
	}
	maxSteps := w.Cfg.MaxSteps
	if maxSteps <= 0 {
		maxSteps = 3000
	}
	for w.step < maxSteps {
		if w.mainDone() {
			break
		}
		if w.idleRun > 10 {
			// nothing but the clock has been able to move for a while: whatever is
			// still pending waits for something only the settle phase provides
			break
		}
		if !w.doStep(false) {
			break
		}
		if len(w.sched.TakePanics()) > 0 {
			break
		}
	}
	if rc, ok := w.chooser.(*replayChooser); ok && rc.Diverged != "" {
		res.Diverged = rc.Diverged
	}
	mainSteps := w.step

	// ---- profile-specific phases and oracles
	if res.Diverged == "" {
		w.afterMain()
	}

	// ---- collect
	synctest.Wait()
	res.Steps = w.step
	res.SimTime = w.simTime
	res.Trace = w.trace
	res.Faults = w.faults
	res.NetStats = w.net.Snapshot()
	res.Probes = w.probes
	res.Rules = w.rules
	res.Violations = w.viol
	res.Notes = w.notes
	res.Tasks = w.sched.NumTasks()
	res.Unnamed = w.sched.Unnamed
	res.Calls = len(w.calls) - 1
	res.Panics = w.sched.TakePanics()
	res.LogHash = w.logHash()
	if w.internal != "" {
		res.Internal = w.internal
	}
	res.SchedSig, res.Nontrivial = w.schedSignature(mainSteps)
	if opt.KeepEvents {
		res.Events = append([]Event(nil), w.events...)
	}
	if opt.Profile {
		res.Sample = w.sched.SiteHits
	}

	if os.Getenv("SIM_DUMP") != "" {
		buf := make([]byte, 4<<20)
		n := runtime.Stack(buf, true)
		os.Stdout.Write(buf[:n])
	}
	// ---- teardown
	w.teardown(res)
}

func (w *World) mainDone() bool {
	w.mu.Lock()
	defer w.mu.Unlock()
	return w.threadsDone >= w.threadsAll && w.phase == "main" && w.extraMain()
}

// extraMain lets the main phase run a little beyond the end of the programs so
// that stragglers are scheduled adversarially too.
func (w *World) extraMain() bool {
	if w.mainEndStep == 0 {
		w.mainEndStep = w.step + w.Cfg.ExtraSteps
	}
	return w.step >= w.mainEndStep
}

// settle runs the fair, fault-free phase: stalls and partitions heal, gates
// open, scheduling is round-robin, and time advances only when nothing else is
// enabled. It ends when until() holds and at least minTime has passed, or when
// maxTime of simulated time has passed, or after maxSteps.
func (w *World) settle(name string, openGates bool, minTime, maxTime time.Duration, maxSteps int, until func() bool) {
	w.phase = name
	w.net.SetAutoConnect(true)
	if openGates {
		w.net.HealAll()
		w.settling = true
		w.settlingA.Store(true)
	}
	w.ev("phase", "%s", name)
	fc := &fairChooser{last: map[string]int{}}
	startT := w.simTime
	idle := 0
	for n := 0; n < maxSteps; n++ {
		quiesce()
		w.mu.Lock()
		w.step++
		w.mu.Unlock()
		acts := w.enabledActions(true)
		if len(acts) > 0 {
			i, _ := fc.Choose(w, acts)
			if debugFair {
				w.ev("fair", "%s", acts[i].Key)
			}
			acts[i].run(0)
			idle = 0
			continue
		}
		el := w.simTime - startT
		if until != nil && until() && el >= minTime {
			return
		}
		if el >= maxTime {
			return
		}
		d := time.Millisecond << uint(min(idle, 18))
		if el+d > maxTime {
			d = maxTime - el
		}
		if until != nil && until() && el+d > minTime {
			d = minTime - el
		}
		if d <= 0 {
			d = time.Millisecond
		}
		idle++
		w.tickFair(d)
	}
	w.note("settle %s: step budget exhausted", name)
}

// grace runs a fair phase in which nothing stuck gets unstuck: no heal, no gate opens.
// If noClock is set the clock does not advance at all.
func (w *World) grace(name string, noClock bool, maxTime time.Duration, maxSteps int, until func() bool) {
	w.phase = name
	w.net.SetAutoConnect(true)
	w.ev("phase", "%s", name)
	fc := &fairChooser{last: map[string]int{}}
	startT := w.simTime
	idle := 0
	for n := 0; n < maxSteps; n++ {
		quiesce()
		w.mu.Lock()
		w.step++
		w.mu.Unlock()
		if until != nil && until() {
			return
		}
		acts := w.enabledActions(true)
		if len(acts) > 0 {
			i, _ := fc.Choose(w, acts)
			if debugFair {
				w.ev("fair", "%s", acts[i].Key)
			}
			acts[i].run(0)
			idle = 0
			continue
		}
		if noClock {
			return
		}
		el := w.simTime - startT
		if el >= maxTime {
			return
		}
		d := time.Millisecond << uint(min(idle, 18))
		if el+d > maxTime {
			d = maxTime - el
		}
		idle++
		w.tickFair(d)
	}
}

// tickFair advances the clock by at most d, but stops as soon as something other than the
// clock can act (a dial is pending, bytes are in flight, a task is runnable): in fair phases the
// network is fast relative to every timer, so e.g. a connection attempt is never made to time
// out merely because the simulator was in the middle of a long clock step.
func (w *World) tickFair(d time.Duration) {
	w.ev("tick", "d=%v (interruptible)", d)
	slice := 250 * time.Microsecond
	var el time.Duration
	for el < d {
		s := min(slice, d-el)
		dials := w.net.Snapshot().Dials
		sleepPast(s)
		el += s
		w.simTime += s
		synctest.Wait()
		if len(w.net.Actions()) > 0 {
			return
		}
		for _, ti := range w.sched.Parked() {
			if ti.Enabled {
				return
			}
		}
		if w.net.Snapshot().Dials != dials {
			slice = 250 * time.Microsecond
		} else if slice < time.Second {
			slice *= 2
		}
	}
}

func (w *World) allCallsDone() bool {
	w.mu.Lock()
	defer w.mu.Unlock()
	if w.threadsDone < w.threadsAll {
		return false
	}
	for _, c := range w.calls[1:] {
		if c.InvokeSeq != 0 && c.DoneSeq == 0 && c.Panic == "" {
			return false
		}
	}
	return true
}

func (w *World) teardown(res *Result) {
	w.phase = "teardown"
	if w.stalls != nil {
		dsync.SetStalls(nil)
		w.faults["stall"] += int(dsync.StallsFired(w.stalls))
	}
	w.settling = true
	w.settlingA.Store(true)
	for _, c := range w.calls[1:] {
		if c.cancel != nil {
			c.cancel()
		}
	}
	w.sched.FreeRun()
	for _, m := range w.mgrs {
		if m.mgr != nil {
			mm := m.mgr
			go func() {
				defer func() { _ = recover() }()
				mm.Close()
			}()
		}
	}
	time.Sleep(time.Second)
	for _, s := range w.servers {
		if s.Up {
			s.Up = false
			s.lis.Close()
			srv := s.srv
			go srv.Stop()
		}
	}
	// let every timer-driven goroutine finish (deliver everything instantly)
	for i := 0; i < 200; i++ {
		time.Sleep(5 * time.Second)
		acts := w.net.Actions()
		if len(acts) == 0 && i > 3 {
			break
		}
		for _, a := range acts {
			a.Run(0)
		}
	}
	for _, c := range w.net.Conns() {
		w.net.Reset(c)
	}
	time.Sleep(10 * time.Minute)
	synctest.Wait()
	res.Leaked = w.sched.Live()
	w.sched.Kill()
	time.Sleep(5 * time.Second)
	synctest.Wait()
	for _, g := range goroutines() {
		top := ""
		if len(g.Frames) > 0 {
			top = shortFn(g.Frames[0])
		}
		res.Remaining = append(res.Remaining, fmt.Sprintf("%s in %s lib=%s created-by=%s", g.State, top, g.Lib, shortFn(g.Created)))
	}
	w.sched.Stop()
}

// logHash hashes the history in a canonical order that does not depend on the
// real-time arrival order of events recorded within one scheduler step.
func (w *World) logHash() string {
	w.mu.Lock()
	lines := make([]string, 0, len(w.events))
	for _, e := range w.events {
		lines = append(lines, fmt.Sprintf("%06d|%s|%s|%s", e.Step, e.Kind, e.Task, e.Attr))
	}
	w.mu.Unlock()
	sort.Strings(lines)
	h := sha256.New()
	for _, l := range lines {
		h.Write([]byte(l))
		h.Write([]byte{'\n'})
	}
	for _, t := range w.trace {
		h.Write([]byte(t))
		h.Write([]byte{'\n'})
	}
	return hex.EncodeToString(h.Sum(nil))[:24]
}

// schedSignature abstracts the main-phase schedule to the sequence of
// (task role, site) / action kinds and reports whether the run was non-trivial:
// at least two library tasks were interleaved (a switch between two different
// library task roles happened while both were live).
func (w *World) schedSignature(mainSteps int) (string, bool) {
	h := sha256.New()
	switches := 0
	last := ""
	for _, p := range w.sigParts {
		h.Write([]byte(p))
		h.Write([]byte{';'})
		if strings.Contains(p, "@") && !strings.HasPrefix(p, "thread@op") {
			role := p[:strings.IndexByte(p, '@')]
			if last != "" && role != last {
				switches++
			}
			last = role
		}
	}
	return hex.EncodeToString(h.Sum(nil))[:16], switches >= 2
}

func (w *World) armSiteFaults() {
	var site []*Fault
	for _, f := range w.Prog.Faults {
		if f.Site != "" {
			site = append(site, f)
		}
	}
	if len(site) == 0 {
		return
	}
	w.sched.OnPark = func(t *simrt.Task) {
		for _, f := range site {
			if f.fired || f.armed {
				continue
			}
			if t.Role == f.Role && t.Site() == f.Site {
				f.hits++
				need := f.K
				if f.AtVisit > 0 {
					need = f.AtVisit
				}
				if f.hits >= need {
					f.armed = true
				}
			}
		}
	}
}
