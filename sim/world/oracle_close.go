package world

import (
	"fmt"
	"reflect"
	"sort"
	"strings"
	"time"

	"gorumsim/simrt"
)

func init() {
	profileGen["C12"] = genC12
	profileAfterMain["C12"] = afterC12
	profileGen["C18"] = genC18
	profileAfterMain["C18"] = afterC18
}

// ---------------------------------------------------------------- C12

func genC12(g *gen) {
	c := g.cfg
	c.NMgrs = pick(g.r, 1, 1, 2)
	c.FaultFree = false
	c.SendBuffer = pick(g.r, 0, 0, 1, 3, 16)
	g.genConfigs(false)
	n := c.NServers
	for i := 0; i < n; i++ {
		switch pick(g.r, "up", "up", "up", "down", "blackhole", "crash") {
		case "down":
			c.Down = append(c.Down, i)
		case "blackhole":
			c.Down = append(c.Down, i)
			c.Blackhole = append(c.Blackhole, i)
		case "crash":
			g.prog.Faults = append(g.prog.Faults, &Fault{Kind: "crash", Srv: i, Mgr: -1, AtStep: 30 + g.r.IntN(300)})
		}
	}
	// now and then: Close strikes while the sender (re)dials a node that has never been connected
	// and that comes up just then (blocking dial with a long timeout; the server starts around the
	// time of the Close, so that the connection attempt that is in flight succeeds after all)
	lateUp := -1
	if g.chance(0.15) {
		c.WithBlock = true
		c.DialTimeoutMs = 1000
		lateUp = g.r.IntN(n)
		c.Down, c.Blackhole = []int{lateUp}, nil
		g.prog.Faults = nil
		a := 40 + g.r.IntN(160)
		g.prog.Faults = append(g.prog.Faults, &Fault{Kind: "restart", Srv: lateUp, AtStep: a + g.r.IntN(30)},
			&Fault{Kind: "close", Mgr: 0, K: 1, AtStep: a + g.r.IntN(30)})
	}
	pool := stubsOf("rpc", "qc", "async", "corr", "cstream", "mcast", "ucast")
	for m := 0; m < c.NMgrs; m++ {
		nThreads := 1 + g.r.IntN(3)
		closer := g.r.IntN(nThreads + 1) // == nThreads: closed by a fault action instead of a thread
		if lateUp >= 0 && m == 0 {
			closer = nThreads
		}
		for t := 0; t < nThreads; t++ {
			th := &Thread{Mgr: m}
			nOps := 1 + g.r.IntN(6)
			closeAt := -1
			if t == closer {
				closeAt = g.r.IntN(nOps + 1)
			}
			for i := 0; i <= nOps; i++ {
				if i == closeAt {
					th.Ops = append(th.Ops, &Op{Kind: "close", N: pick(g.r, 1, 1, 2)})
					if g.chance(0.3) {
						th.Ops = append(th.Ops, &Op{Kind: "close", N: 1})
					}
				}
				if i == nOps {
					break
				}
				s := pool[g.r.IntN(len(pool))]
				op := g.callOp(m, s, 0.15, 0.1)
				for _, p := range plansInOrder(op.Plans) {
					if s.Kind == "cstream" {
						p.StreamK = g.r.IntN(4)
					}
				}
				if s.Kind == "corr" || s.Kind == "cstream" {
					op.QF = &QFSpec{NeedServer: -1, DoneAt: pick(g.r, 1, 2, 50)}
				}
				// mostly Background contexts: a stranded caller shows as a hang
				x := g.r.Float64()
				switch {
				case x < 0.7:
					op.Ctx = "bg"
				case x < 0.85:
					op.Ctx = "cancel"
					op.CancelW = pick(g.r, 0.1, 0.03)
				default:
					op.Ctx = "deadline"
					op.DeadlineMs = pick(g.r, 10, 1000)
				}
				if s.Kind == "mcast" || s.Kind == "ucast" {
					op.NoSendWait = g.chance(0.4)
				}
				th.Ops = append(th.Ops, op)
			}
			g.prog.Threads = append(g.prog.Threads, th)
		}
		if closer == nThreads && !(lateUp >= 0 && m == 0) {
			g.prog.Faults = append(g.prog.Faults, &Fault{Kind: "close", Mgr: m, K: pick(g.r, 1, 1, 2), AtStep: 20 + g.r.IntN(500)})
		}
	}
}

func (w *World) spawnCloser(m *Mgr) {
	simrt.GoNamed(fmt.Sprintf("c%d/late-closer", m.Idx), "closer", func() { w.doClose(m, 1) })
	w.faultsInc("close")
}

// clientLibTasks returns the live library-spawned tasks of manager m (tasks created by a go
// statement inside the library, directly or indirectly on behalf of the manager's client side).
func (w *World) clientLibTasks(m *Mgr) []string {
	var out []string
	pre := m.Name + "/"
	for _, n := range w.sched.Live() {
		if strings.HasPrefix(n, pre) && strings.Contains(n, ".go:") {
			out = append(out, n)
		}
	}
	return out
}

func afterC12(w *World) {
	// let manager set-up finish (it may be waiting for black-holed dials to time out)
	w.grace("wait-ready", false, 60*time.Second, 8000, func() bool {
		for _, m := range w.mgrs {
			if !m.ready {
				return false
			}
		}
		return true
	})
	// make sure every manager gets closed
	for _, m := range w.mgrs {
		if !m.closed && m.ready {
			w.spawnCloser(m)
		}
	}
	// phase 1: Close itself must return (fair, no gate opens, nothing heals, no server restarts)
	w.grace("closing", false, 15*time.Second, 12000, func() bool {
		for _, m := range w.mgrs {
			if m.ready && m.CloseSeq == 0 {
				return false
			}
		}
		return true
	})
	for _, m := range w.mgrs {
		if !m.ready || !m.closed {
			continue
		}
		waited := w.elapsed() - m.closeInvokedAt
		if m.CloseSeq == 0 && waited < 10*time.Second {
			continue // invoked too recently to judge
		}
		w.rule("C12.close-returns", m.CloseSeq != 0)
		if m.CloseSeq == 0 {
			w.violate("C12", "close-blocked", "", "Manager.Close of %s has not returned %v (simulated) after it was called: %s", m.Name, waited, w.stuckReport())
		}
	}
	// phase 2: at most 10 s simulated after Close returned
	w.grace("grace", false, 10*time.Second, 12000, nil)
	for _, m := range w.mgrs {
		if !m.ready || m.CloseSeq == 0 {
			continue
		}
		// (b) every call has returned
		for _, c := range w.calls[1:] {
			if c.Mgr != m.Idx || c.InvokeSeq == 0 {
				continue
			}
			if c.Panic != "" {
				w.violate("C12", "call-panicked", "", "call t%d (%s, %s Close) panicked: %s", c.Tok, c.Stub, beforeAfter(c), c.Panic)
				continue
			}
			returned := c.ReturnSeq != 0
			w.rule("C12.stub-returns", returned)
			if !returned {
				w.violate("C12", "caller-stranded", w.closeCause(m, w.c12Key(c)), "call t%d (%s, ctx %s, invoked %s Close) is still inside the stub invocation 10 s (simulated) after Close returned (routing entries left: %s): %s", c.Tok, c.Stub, c.CtxKind, beforeAfter(c), w.residueText(m), w.whereIs(c))
				continue
			}
			complete := c.DoneSeq != 0
			w.rule("C12.call-completes", complete)
			if !complete {
				_, resd := w.residue(m)
				w.violate("C12", "call-never-completes", w.closeCause(m, c.Info.Kind), "call t%d (%s, ctx %s, invoked %s Close): its future / correctable has not completed 10 s (simulated) after Close returned (routing entries left: %s): %s", c.Tok, c.Stub, c.CtxKind, beforeAfter(c), resd, w.stuckReport())
			}
			if c.PostClose && c.HasRes && c.Err == nil && len(c.Targets) > 0 {
				// a reply-bearing call issued after Close cannot have succeeded
				w.violate("C12", "post-close-success", "", "call t%d (%s) was issued after Close had returned and succeeded", c.Tok, c.Stub)
			}
		}
		// (d) goroutines and connections
		leaked := w.clientLibTasks(m)
		w.rule("C12.no-library-goroutine-left", len(leaked) == 0)
		if len(leaked) > 0 {
			w.violate("C12", "goroutine-leak", w.closeCause(m, leakKey(leaked)), "after Close of %s returned and 10 s (simulated) passed, %d library goroutines of that manager are still alive: %v | %s", m.Name, len(leaked), leaked, w.stuckReport())
		}
		open := 0
		var names []string
		for _, cn := range w.net.AllConns() {
			if cn.Client == m.Name && !cn.ClientClosed() {
				open++
				names = append(names, cn.Key)
			}
		}
		w.rule("C12.connections-closed", open == 0)
		if open > 0 {
			w.violate("C12", "connection-leak", "", "after Close of %s returned and 10 s (simulated) passed, %d of its connections are still open: %v", m.Name, open, names)
		}
		if pd := w.net.PendingDials(m.Name); pd > 0 {
			w.rule("C12.no-dial-left", false)
			w.violate("C12", "dial-leak", "", "after Close of %s returned and 10 s (simulated) passed, %d connection attempts of that manager are still in progress", m.Name, pd)
		}
	}
	w.defaultSettle()
}

// closeCause names the recognisable root cause of something that did not end after Close:
// a goroutine blocked handing a reply to a call that does not read its (full) reply channel -
// only possible for server-stream calls - or a request that was never answered (its routing
// entry is still there); otherwise the fallback.
func (w *World) closeCause(m *Mgr, fallback string) string {
	if strings.Contains(w.wedgeKey(), "receiver-blocked-handing-reply-to-ended-call") {
		return "reply-hand-over-blocked"
	}
	if n, _ := w.residue(m); n > 0 {
		return "request-never-answered"
	}
	return fallback
}

func (w *World) residueText(m *Mgr) string {
	_, d := w.residue(m)
	return d
}

func beforeAfter(c *Call) string {
	if c.PostClose {
		return "after"
	}
	return "before"
}

func (w *World) c12Key(c *Call) string {
	k := w.c08Key(c)
	if c.PostClose {
		return "post-close:" + k
	}
	return k
}

// leakKey names the kinds of leaked goroutines (roles from spawn sites, ids stripped).
func leakKey(names []string) string {
	set := map[string]bool{}
	for _, n := range names {
		i := strings.LastIndexByte(n, '(')
		j := strings.LastIndexByte(n, ')')
		if i >= 0 && j > i {
			set[n[i+1:j]] = true
		}
	}
	var ks []string
	for k := range set {
		ks = append(ks, k)
	}
	sort.Strings(ks)
	return strings.Join(ks, "+")
}

// ---------------------------------------------------------------- C18

func genC18(g *gen) {
	c := g.cfg
	c.NMgrs = 1
	g.genConfigs(true)
	pool := stubsOf("rpc", "qc", "async", "corr", "cstream", "mcast", "ucast")
	nThreads := 1 + g.r.IntN(2)
	nOps := 4 + g.r.IntN(10)
	if c.Tier == "thorough" {
		nOps = 10 + g.r.IntN(60)
	}
	c.MaxSteps = 4000 + 400*nOps
	for t := 0; t < nThreads; t++ {
		th := &Thread{Mgr: 0}
		for i := 0; i < nOps; i++ {
			s := pool[g.r.IntN(len(pool))]
			op := g.callOp(0, s, 0.08, 0.15)
			for _, p := range plansInOrder(op.Plans) {
				if s.Kind == "cstream" {
					p.StreamK = g.r.IntN(4)
					p.StreamEnd = pick(g.r, "", "err")
					if p.Reply != "ok" {
						p.Reply = "ok"
					}
					if p.StreamEnd == "err" {
						p.Code, p.Msg = 2, "end"
					}
				}
			}
			if op.QF != nil {
				members := g.prog.Configs[0][op.Cfg]
				op.QF.Threshold = g.r.IntN(len(members) + 2)
			}
			if s.Kind == "corr" || s.Kind == "cstream" {
				op.QF = &QFSpec{NeedServer: -1, DoneAt: pick(g.r, 1, 2, 3, 50)}
			}
			g.ctxFor(op, 0.25, 0.15)
			if (s.Kind == "cstream") && op.Ctx == "bg" {
				// a stream call with a Background context that is never done would stay outstanding
				op.Ctx = "deadline"
				op.DeadlineMs = 1000
			}
			if s.Kind == "mcast" || s.Kind == "ucast" {
				op.NoSendWait = g.chance(0.4)
			}
			th.Ops = append(th.Ops, op)
		}
		g.prog.Threads = append(g.prog.Threads, th)
	}
	if g.chance(0.3) {
		// connections that break while calls are outstanding (and come back): failed sends and
		// failed streams are one more way for a call to end
		c.FaultFree = false
		for k := 1 + g.r.IntN(3); k > 0; k-- {
			si := g.r.IntN(c.NServers)
			a := 30 + g.r.IntN(600)
			switch pick(g.r, "reset", "crash") {
			case "reset":
				g.prog.Faults = append(g.prog.Faults, &Fault{Kind: "reset", Srv: si, Mgr: -1, AtStep: a})
			case "crash":
				g.prog.Faults = append(g.prog.Faults, &Fault{Kind: "crash", Srv: si, Mgr: -1, AtStep: a}, &Fault{Kind: "restart", Srv: si, AtStep: a + 1 + g.r.IntN(200)})
			}
		}
	}
}

// residue sums, name-agnostically, the lengths of all maps reachable from the manager's node
// objects through at most three levels of unexported struct / pointer fields.
func (w *World) residue(m *Mgr) (total int, detail string) {
	seen := map[uintptr]bool{}
	var walk func(v reflect.Value, depth int, path string)
	var parts []string
	walk = func(v reflect.Value, depth int, path string) {
		if depth > 3 {
			return
		}
		switch v.Kind() {
		case reflect.Ptr:
			if v.IsNil() {
				return
			}
			p := v.Pointer()
			if seen[p] {
				return
			}
			seen[p] = true
			walk(v.Elem(), depth, path)
		case reflect.Struct:
			t := v.Type()
			if !strings.Contains(t.PkgPath(), "relab/gorums") {
				return
			}
			for i := 0; i < v.NumField(); i++ {
				f := t.Field(i)
				if f.Type.Kind() == reflect.Ptr && strings.HasSuffix(f.Type.String(), "RawManager") {
					continue // the shared manager: its node table is not per-call state
				}
				walk(v.Field(i), depth+1, path+"."+f.Name)
			}
		case reflect.Map:
			if n := v.Len(); n > 0 {
				total += n
				var keys []string
				for _, k := range v.MapKeys() {
					switch k.Kind() {
					case reflect.Uint64, reflect.Uint32, reflect.Uint:
						keys = append(keys, fmt.Sprint(k.Uint()))
					}
				}
				sort.Strings(keys)
				parts = append(parts, fmt.Sprintf("%s=%d%v", path, n, keys))
			}
		}
	}
	for i, n := range m.rawNodes {
		walk(reflect.ValueOf(n), 0, fmt.Sprintf("node#%d", i))
	}
	sort.Strings(parts)
	return total, strings.Join(parts, " ")
}

func afterC18(w *World) {
	// reach probe: routing entries of calls whose nodes have not answered yet are visible to the
	// name-agnostic measurement (otherwise "zero residue" below would be vacuous)
	for _, m := range w.mgrs {
		if m.ready && !m.closed {
			if n, _ := w.residue(m); n > 0 {
				w.probe("routing-entries-visible-before-settle")
			}
		}
	}
	for _, s := range w.servers {
		if !s.Up {
			w.startServer(s)
		}
	}
	w.defaultSettle()
	// extra quiet time so that every deadline context has fired and every straggler has arrived
	w.grace("quiet", false, 3*time.Second, 8000, nil)
	for _, c := range w.calls[1:] {
		if c.cancel != nil {
			c.cancel()
		}
	}
	w.grace("quiet2", false, 2*time.Second, 8000, nil)
	for _, m := range w.mgrs {
		if !m.ready || m.closed {
			continue
		}
		// precondition: every targeted node of every call has answered or its connection failed.
		// After the settle phase (all gates open, all servers reachable) that is the case unless a
		// handler is still running; check it from the server-side records.
		pendingHandlers := 0
		for _, h := range w.hrecs {
			if h.ReturnSeq == 0 {
				pendingHandlers++
			}
		}
		if pendingHandlers > 0 {
			w.note("C18: %d handlers still running; residue not judged", pendingHandlers)
			continue
		}
		res, detail := w.residue(m)
		w.rule("C18.no-routing-state-left", res == 0)
		if res != 0 {
			w.violate("C18", "routing-residue", w.residueKey(), "after every call had ended and every targeted node had answered, the client keeps %d routing entries: %s (calls: %s)", res, detail, w.endKinds())
		}
		// goroutines: a library goroutine that descends from a call invocation (task tree) must be
		// gone; of the goroutines that descend from the manager's set-up (per-node infrastructure and
		// whatever it spawns per request) at most one of each kind may exist per node (how many kinds of
		// per-node goroutines an implementation keeps is its own business)
		roles := w.sched.LiveRoles()
		count := map[string]int{}
		total := 0
		var extra, infra []string
		for _, n := range w.clientLibTasks(m) {
			if !strings.HasPrefix(n, m.Name+"/setup/") {
				extra = append(extra, n)
				continue
			}
			count[roles[n]]++
			total++
			infra = append(infra, n)
		}
		for r, k := range count {
			if k > len(m.rawNodes) {
				extra = append(extra, fmt.Sprintf("%d goroutines of kind %q for %d nodes", k, r, len(m.rawNodes)))
			}
		}
		_, _ = total, infra
		sort.Strings(extra)
		w.rule("C18.no-call-goroutine-left", len(extra) == 0)
		if len(extra) > 0 {
			w.violate("C18", "goroutine-residue", leakKey(extra), "after every call had ended and every targeted node had answered, goroutines started for calls are still alive: %v | %s", extra, w.stuckReport())
		}
	}
	w.checkCore()
}

// endKinds summarises the ways the run's calls ended (for reports and finding keys).
func (w *World) endKinds() string {
	set := map[string]int{}
	for _, c := range w.calls[1:] {
		if c.InvokeSeq == 0 {
			continue
		}
		k := c.Info.Kind + ":"
		switch {
		case c.DoneSeq == 0:
			k += "open"
		case c.Err == nil:
			k += "ok"
		case c.CtxEndSeq != 0:
			k += "ctx"
		default:
			k += "err"
		}
		set[k]++
	}
	var ks []string
	for k, n := range set {
		ks = append(ks, fmt.Sprintf("%s=%d", k, n))
	}
	sort.Strings(ks)
	return strings.Join(ks, " ")
}

// residueKey names which kind of call left routing state behind: the kinds of calls whose
// message ids... cannot be read name-agnostically, so the key is the set of call kinds that
// ended by context end or error (the usual suspects), or "any".
func (w *World) residueKey() string {
	set := map[string]bool{}
	for _, c := range w.calls[1:] {
		if c.InvokeSeq == 0 {
			continue
		}
		if c.CtxEndSeq != 0 || c.Err != nil || c.Info.Kind == "cstream" {
			set[c.Info.Kind] = true
		}
	}
	var ks []string
	for k := range set {
		ks = append(ks, k)
	}
	sort.Strings(ks)
	if len(ks) == 0 {
		return "any"
	}
	return strings.Join(ks, "+")
}
