package world

import (
	"strings"
	"sort"
	"math/rand/v2"
)

type gen struct {
	r    *rand.Rand
	cfg  *RunConfig
	prog *Program
}

func pick[T any](r *rand.Rand, xs ...T) T { return xs[r.IntN(len(xs))] }

func (g *gen) chance(p float64) bool { return g.r.Float64() < p }

func stubsOf(kinds ...string) []StubInfo {
	var out []StubInfo
	for _, s := range Stubs {
		for _, k := range kinds {
			if s.Kind == k {
				out = append(out, s)
			}
		}
	}
	return out
}

// Generate derives the swarm configuration and the program of a run from its seed.
func Generate(seed uint64, profile, tier string) (RunConfig, *Program) {
	r := rand.New(rand.NewPCG(seed, 0xda3e39cb94b95bdb))
	cfg := RunConfig{Seed: seed, Profile: profile, Tier: tier}
	g := &gen{r: r, cfg: &cfg, prog: &Program{}}
	g.baseConfig()
	if fn, ok := profileGen[profile]; ok {
		fn(g)
	} else {
		g.genCore(profile)
	}
	return cfg, g.prog
}

var profileGen = map[string]func(g *gen){}

func (g *gen) baseConfig() {
	r, c := g.r, g.cfg
	c.NServers = pick(r, 1, 2, 3, 3, 3, 4, 5)
	c.NMgrs = pick(r, 1, 1, 1, 2)
	c.SendBuffer = pick(r, 0, 0, 1, 3, 16)
	c.ServerBuffer = pick(r, 0, 0, 1, 8)
	c.DialTimeoutMs = pick(r, 10, 50, 50, 1000)
	c.WithBlock = r.IntN(6) == 0
	c.BackoffBaseMs = pick(r, 0, 1, 10, 100, 1000)
	if c.BackoffBaseMs > 0 {
		c.BackoffMult = pick(r, 1.0, 1.6, 2.0)
		c.BackoffJitter = pick(r, 0.0, 0.2)
		c.BackoffMaxMs = pick(r, 10, 100, 1000, 10000, 120000)
		if c.BackoffMaxMs < c.BackoffBaseMs {
			c.BackoffMaxMs = c.BackoffBaseMs
		}
		// a back-off that stays in the millisecond range makes gRPC re-dial a dead address a
		// thousand times per simulated second; keep such storms out (they only cost wall time)
		if c.BackoffMaxMs < 100 {
			c.BackoffMaxMs = 100
		}
		if c.BackoffBaseMs < 100 && c.BackoffMult < 1.5 {
			c.BackoffMult = 1.6
		}
	}
	c.Metadata = pick(r, "none", "general", "pernode", "both")
	c.NetCap = pick(r, 0, 0, 0, 4096, 65536)
	c.Strategy = pick(r, "random", "random", "sticky", "sticky", "pct")
	c.PreemptP = pick(r, 0.02, 0.1, 0.3)
	c.PCTDepth = pick(r, 1, 2, 3)
	c.TickP = pick(r, 0.0, 0.005, 0.02, 0.05)
	c.PartialP = pick(r, 0.0, 0.0, 0.1, 0.3)
	c.MaxSteps = 4000
	c.ExtraSteps = pick(r, 0, 0, 10, 40)
	c.FaultFree = true
}

// allServers returns 0..n-1.
func allServers(n int) []int {
	out := make([]int, n)
	for i := range out {
		out[i] = i
	}
	return out
}

func (g *gen) subset(n int, min int) []int {
	for {
		var out []int
		for i := 0; i < n; i++ {
			if g.chance(0.6) {
				out = append(out, i)
			}
		}
		if len(out) >= min {
			return out
		}
	}
}

// genConfigs creates 1..3 configurations per manager; the first one is always the full set.
func (g *gen) genConfigs(extra bool) {
	n := g.cfg.NServers
	g.prog.Configs = nil
	for m := 0; m < g.cfg.NMgrs; m++ {
		cs := [][]int{allServers(n)}
		if extra {
			for k := g.r.IntN(3); k > 0; k-- {
				cs = append(cs, g.subset(n, 1))
			}
		}
		g.prog.Configs = append(g.prog.Configs, cs)
	}
}

func (g *gen) handlerPlan(hangP, errP float64) *HandlerPlan {
	p := &HandlerPlan{Reply: "ok", Late: g.chance(0.5)}
	x := g.r.Float64()
	switch {
	case x < hangP:
		p.Reply = "hang"
	case x < hangP+errP:
		p.Reply = "err"
		p.ErrWithResp = g.chance(0.3)
		p.Code = 1 + g.r.IntN(16)
		p.Msg = "planned-" + pick(g.r, "a", "b", "c") + "-" + string(rune('0'+g.r.IntN(10)))
		switch g.r.IntN(8) {
		case 0: // a long text: the encoded metadata no longer fits what a short one does
			p.Msg += "-" + strings.Repeat("long status text ", 6+g.r.IntN(30))
		case 1: // text that needs escaping / is not ASCII
			p.Msg += " \"quoted\" \\ tab\there, ünïcødé ✓"
		}
	}
	return p
}

func (g *gen) ctxFor(op *Op, cancelP, deadlineP float64) {
	x := g.r.Float64()
	switch {
	case x < cancelP:
		op.Ctx = "cancel"
		op.CancelW = pick(g.r, 0.3, 0.1, 0.03, 0.01)
		op.CancelAfter = g.chance(0.5)
	case x < cancelP+deadlineP:
		op.Ctx = "deadline"
		op.DeadlineMs = pick(g.r, 0, 1, 10, 50, 1000)
	default:
		op.Ctx = "bg"
	}
}

// callOp builds a call op of the given stub on configuration ci of manager m.
func (g *gen) callOp(m int, s StubInfo, hangP, errP float64) *Op {
	op := &Op{Kind: "call", Stub: s.Name, Ctx: "bg", Plans: map[int]*HandlerPlan{}}
	cfgs := g.prog.Configs[m]
	op.Cfg = g.r.IntN(len(cfgs))
	members := cfgs[op.Cfg]
	if s.Kind == "rpc" || s.Kind == "ucast" {
		op.Node = members[g.r.IntN(len(members))]
		members = []int{op.Node}
	}
	if s.PerNode {
		pn := &PerNodeSpec{Distinct: g.chance(0.5)}
		if g.chance(0.5) {
			for _, si := range members {
				if g.chance(0.3) {
					pn.Skip = append(pn.Skip, si)
				}
			}
		}
		if g.chance(0.06) {
			pn.Skip = append([]int(nil), members...)
		}
		if g.cfg.Profile == "C06" && s.Kind == "mcast" && !s.ReqEmpty && g.chance(0.35) {
			for _, si := range members {
				skipped := false
				for _, x := range pn.Skip {
					skipped = skipped || x == si
				}
				if !skipped && g.chance(0.4) {
					pn.Empty = append(pn.Empty, si)
				}
			}
		}
		op.PerNode = pn
	}
	if !s.ReqEmpty {
		for _, si := range members {
			if g.chance(0.7) {
				op.Plans[si] = g.handlerPlan(hangP, errP)
			}
		}
	}
	switch s.Kind {
	case "qc", "async":
		n := len(members)
		op.QF = &QFSpec{Threshold: g.r.IntN(n + 2), NeedServer: -1, Slow: g.chance(0.3), NonNilOnFalse: g.chance(0.3)}
		if g.chance(0.15) {
			op.QF.NeedServer = members[g.r.IntN(n)]
			op.QF.Threshold = 1 + g.r.IntN(n)
		} else if g.chance(0.2) {
			// a quorum function that is not monotone: a quorum is exactly k replies
			op.QF.Exactly = true
		}
	}
	return op
}

// genCore generates the workload shared by C01, C02, C05 and C06: threads of
// quorum calls, async calls (with later Gets), RPCs and one-way calls.
func (g *gen) genCore(profile string) {
	g.genConfigs(profile == "C05")
	kinds := []string{"qc", "async"}
	hangP, errP := 0.12, 0.2
	cancelP, deadlineP := 0.15, 0.1
	switch profile {
	case "C01":
		// other calls of every kind share the nodes (and the per-node routing tables)
		if g.chance(0.5) {
			kinds = []string{"qc", "async", "qc", "async", "rpc", "ucast", "mcast", "corr"}
		}
	case "C02":
		cancelP, deadlineP = 0.4, 0.15
		if g.cfg.NServers >= 2 && g.chance(0.15) {
			// busy senders: one node is down and the manager dials with a blocking dial and a long
			// timeout, so that every request to that node keeps its sender busy for a second
			g.cfg.WithBlock, g.cfg.DialTimeoutMs, g.cfg.FaultFree = true, 1000, false
			g.cfg.Down = []int{g.r.IntN(g.cfg.NServers)}
			cancelP, deadlineP = 0.5, 0.3
		}
	case "C05":
		kinds = []string{"qc", "async", "rpc"}
		cancelP, deadlineP = 0.3, 0.2
	case "C06":
		kinds = []string{"qc", "async", "mcast", "ucast", "corr"}
		hangP = 0.05
	}
	pool := stubsOf(kinds...)
	nThreads := 1 + g.r.IntN(3)
	nswProbe := profile == "C06" && g.cfg.NServers >= 2 && g.chance(0.25)
	if nswProbe {
		// no-send-waiting probe: one manager, one thread; one node is down (its address swallows or
		// refuses connection attempts) and the manager dials with WithBlock, so that connecting to
		// it takes the whole dial timeout; the first op is a no-send-waiting one-way call
		g.cfg.NMgrs, nThreads = 1, 1
		g.cfg.WithBlock = true
		g.cfg.DialTimeoutMs = pick(g.r, 50, 1000)
		g.cfg.FaultFree = false
		down := g.r.IntN(g.cfg.NServers)
		g.cfg.Down = []int{down}
		if g.chance(0.5) {
			g.cfg.Blackhole = []int{down}
		}
		g.prog.Configs = g.prog.Configs[:1]
	}
	if profile == "C05" {
		nThreads = 2 + g.r.IntN(3)
	}
	for t := 0; t < nThreads; t++ {
		th := &Thread{Mgr: g.r.IntN(g.cfg.NMgrs)}
		nOps := 1 + g.r.IntN(6)
		if nswProbe {
			th.Mgr = 0
			ow := stubsOf("mcast", "ucast")
			s := ow[g.r.IntN(len(ow))]
			op := g.callOp(0, s, 0, 0)
			op.Cfg = 0
			if s.Kind == "ucast" {
				op.Node = g.cfg.Down[0]
				op.Plans = map[int]*HandlerPlan{}
			}
			if op.PerNode != nil {
				op.PerNode.Skip, op.PerNode.Empty = nil, nil
			}
			op.Ctx, op.NoSendWait, op.FreezeClock = "bg", true, true
			th.Ops = append(th.Ops, op)
		}
		if profile == "C06" && !nswProbe && g.chance(0.2) {
			// defer-cancel burst: send-waiting one-way calls whose context is cancelled as soon as
			// the stub has returned, interleaved with no-send-waiting calls under a Background
			// context whose messages are then still queued or in flight on the same nodes
			ow := stubsOf("mcast", "ucast")
			for k := 3 + g.r.IntN(6); k > 0; k-- {
				s := ow[g.r.IntN(len(ow))]
				op := g.callOp(th.Mgr, s, 0, 0)
				if k%2 == 0 {
					op.Ctx, op.NoSendWait = "bg", true
				} else {
					op.Ctx, op.CancelW, op.CancelAfter, op.NoSendWait = "cancel", 1e-9, true, false
				}
				th.Ops = append(th.Ops, op)
			}
			nOps = g.r.IntN(3)
		}
		for i := 0; i < nOps; i++ {
			s := pool[g.r.IntN(len(pool))]
			if profile == "C06" && !s.PerNode && g.chance(0.5) {
				// bias towards stubs that take a per-node function
				s = pool[g.r.IntN(len(pool))]
			}
			op := g.callOp(th.Mgr, s, hangP, errP)
			g.ctxFor(op, cancelP, deadlineP)
			if s.Kind == "mcast" || s.Kind == "ucast" {
				op.NoSendWait = g.chance(0.4)
			}
			th.Ops = append(th.Ops, op)
			idx := len(th.Ops) - 1
			if s.Kind == "async" && g.chance(0.6) {
				th.Ops = append(th.Ops, &Op{Kind: "get", Ref: idx})
				if g.chance(0.3) {
					th.Ops = append(th.Ops, &Op{Kind: "get", Ref: idx})
				}
			}
		}
		g.prog.Threads = append(g.prog.Threads, th)
	}
	if profile == "C05" && g.chance(0.3) {
		// connections that break (and come back) while calls are outstanding: answers must
		// still arrive at most once per node
		g.cfg.FaultFree = false
		for k := 1 + g.r.IntN(3); k > 0; k-- {
			si := g.r.IntN(g.cfg.NServers)
			a := 30 + g.r.IntN(500)
			switch pick(g.r, "reset", "crash") {
			case "reset":
				g.prog.Faults = append(g.prog.Faults, &Fault{Kind: "reset", Srv: si, Mgr: -1, AtStep: a})
			case "crash":
				g.prog.Faults = append(g.prog.Faults, &Fault{Kind: "crash", Srv: si, Mgr: -1, AtStep: a}, &Fault{Kind: "restart", Srv: si, AtStep: a + 1 + g.r.IntN(200)})
			}
		}
	}
}

// plansInOrder returns the handler plans of an op in server order. The generators draw from
// the PRNG while they walk over the plans, so the walk must not follow Go's map order.
func plansInOrder(m map[int]*HandlerPlan) []*HandlerPlan {
	keys := make([]int, 0, len(m))
	for k := range m {
		keys = append(keys, k)
	}
	sort.Ints(keys)
	out := make([]*HandlerPlan, 0, len(m))
	for _, k := range keys {
		out = append(out, m[k])
	}
	return out
}
