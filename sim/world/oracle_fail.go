package world

import (
	"context"
	"errors"
	"fmt"
	"math/rand/v2"
	"regexp"
	"sort"
	"strconv"
	"strings"
	"time"

	"github.com/relab/gorums"
	"google.golang.org/grpc/codes"

	"gorumsim/simrt"
)

func init() {
	profileGen["C07"] = genC07
	profileAfterMain["C07"] = func(w *World) {
		w.defaultSettle()
		w.checkCore()
		w.checkFailures()
		if w.Cfg.AllFailScenario {
			// nobody is left waiting for a node that has failed - whatever the call type: the
			// server-stream call of this scenario ends only when every node has failed for it
			for _, c := range w.calls[1:] {
				if c.InvokeSeq == 0 || c.Info.Kind != "cstream" || c.CtxKind != "bg" || c.IsProbe {
					continue
				}
				w.rule("C07.failed-node-completes-the-wait", c.DoneSeq != 0)
				if c.DoneSeq == 0 {
					w.violate("C07", "left-waiting", "stream", "call t%d (%s): every targeted node has failed for it (node %v was down and its request could not be sent; the others ended their streams with an error), but it is still waiting: the failure of a node did not reach the call: %s", c.Tok, c.Stub, w.Cfg.Down, w.stuckReport())
				}
			}
		}
	}
	profileGen["C08"] = genC08
	profileAfterMain["C08"] = afterC08
	profileGen["C09"] = genC09
	profileAfterMain["C09"] = afterC09
	profileGen["C10"] = genC10
	profileAfterMain["C10"] = afterC10
}

// ---------------------------------------------------------------- C07

func genC07(g *gen) {
	c := g.cfg
	c.NMgrs = 1
	c.FaultFree = false
	g.genConfigs(false)
	n := c.NServers
	if n >= 2 && g.chance(0.06) {
		genAllFail(g)
		return
	}
	// failure mode per server
	modes := make([]string, n)
	for i := range modes {
		modes[i] = pick(g.r, "healthy", "healthy", "healthy", "down", "crash", "handler-error", "reset", "partition")
	}
	if c.Tier == "thorough" && g.chance(0.3) {
		// site-triggered crash/reset: strike when a library task reaches a given site for the K-th time
		c.SiteFaults = true
	}
	for i, m := range modes {
		switch m {
		case "down":
			c.Down = append(c.Down, i)
			if g.chance(0.3) {
				c.Blackhole = append(c.Blackhole, i)
			}
		case "crash":
			g.prog.Faults = append(g.prog.Faults, &Fault{Kind: "crash", Srv: i, Mgr: -1, AtStep: 20 + g.r.IntN(600)})
		case "reset":
			g.prog.Faults = append(g.prog.Faults, &Fault{Kind: "reset", Srv: i, Mgr: -1, AtStep: 20 + g.r.IntN(600)})
		case "partition":
			g.prog.Faults = append(g.prog.Faults, &Fault{Kind: "partition", Srv: i, Mgr: 0, AtStep: 20 + g.r.IntN(600)})
		}
	}
	pool := stubsOf("qc", "async")
	nThreads := 1 + g.r.IntN(2)
	for t := 0; t < nThreads; t++ {
		th := &Thread{Mgr: 0}
		nOps := 1 + g.r.IntN(4)
		for i := 0; i < nOps; i++ {
			s := pool[g.r.IntN(len(pool))]
			op := g.callOp(0, s, 0, 0)
			op.Ctx = "bg"
			op.PerNode = nil
			if s.PerNode {
				op.PerNode = &PerNodeSpec{}
			}
			for si := 0; si < n; si++ {
				if s.ReqEmpty {
					continue
				}
				p := &HandlerPlan{Reply: "ok", Late: g.chance(0.5)}
				if modes[si] == "handler-error" && g.chance(0.8) {
					p.Reply = "err"
					p.Code = 1 + g.r.IntN(16)
					p.Msg = fmt.Sprintf("planned-%d-%d", si, g.r.IntN(1000))
				}
				op.Plans[si] = p
			}
			op.QF = &QFSpec{Threshold: 1 + g.r.IntN(n+1), NeedServer: -1, Slow: g.chance(0.2)}
			th.Ops = append(th.Ops, op)
		}
		g.prog.Threads = append(g.prog.Threads, th)
	}
}

var nodeErrRe = regexp.MustCompile(`(?m)^\tnode (\d+): (.*)$`)
var statusRe = regexp.MustCompile(`^rpc error: code = (\S+) desc = (.*)$`)

type nodeErrEntry struct {
	ID   uint32
	Text string
	Code string
	Desc string
}

func parseNodeErrors(text string) []nodeErrEntry {
	var out []nodeErrEntry
	for _, m := range nodeErrRe.FindAllStringSubmatch(text, -1) {
		id, _ := strconv.ParseUint(m[1], 10, 32)
		e := nodeErrEntry{ID: uint32(id), Text: m[2]}
		if sm := statusRe.FindStringSubmatch(m[2]); sm != nil {
			e.Code, e.Desc = sm[1], sm[2]
		}
		out = append(out, e)
	}
	return out
}

// touched reports whether server si or its connection to manager m was hit by a fault
// (or was down) at any time of the run.
func (w *World) touched(si int) bool {
	for _, d := range w.Cfg.Down {
		if d == si {
			return true
		}
	}
	for _, f := range w.Prog.Faults {
		if f.Srv == si && f.fired {
			return true
		}
	}
	return false
}

// checkFailures evaluates C07 on every quorum/async call of the run.
func (w *World) checkFailures() {
	ns := w.net.Snapshot()
	for _, c := range w.calls[1:] {
		if c == nil || c.InvokeSeq == 0 || (c.Info.Kind != "qc" && c.Info.Kind != "async") {
			continue
		}
		if c.DoneSeq == 0 || !c.HasRes {
			continue // liveness is judged by checkCallOutcome (C02/C07 no-outcome)
		}
		// (a) healthy replies that satisfy the quorum function => success
		if c.ReqVal != "" && c.CtxKind == "bg" {
			healthy := 0
			for _, si := range c.Targets {
				p := c.Op.Plans[si]
				// healthy also means that the one connection the manager ever made to the node has
				// carried all its traffic: a connection that either side gave up (e.g. the server,
				// because a clock jump made the client's handshake look stalled) is a connection
				// failure, even though no fault was injected
				nconns := 0
				for _, cn := range w.net.AllConns() {
					if cn.Client == w.mgrs[c.Mgr].Name && cn.Server == addrOf(si) {
						nconns++
					}
				}
				if !w.touched(si) && nconns == 1 && (p == nil || p.Reply == "ok") {
					healthy++
				}
			}
			spec := c.Op.QF
			// connection attempts that time out by themselves (tiny back-off base = tiny gRPC
			// connect timeout) make a node unhealthy without any injected fault
			selfInflicted := ns.DialTimeouts > 0 || ns.Refused > 0 && len(w.Cfg.Down) == 0
			if spec != nil && spec.Threshold > 0 && spec.NeedServer < 0 && healthy >= spec.Threshold && !selfInflicted {
				ok := c.Err == nil
				w.rule("C07.minority-failures-tolerated", ok)
				if !ok {
					w.violate("C07", "not-tolerated", "", "call t%d (%s) failed with %q although %d healthy nodes replied and the quorum function asks for %d replies", c.Tok, c.Stub, firstLine(c.ErrText), healthy, spec.Threshold)
				}
			}
		}
		if c.Err == nil {
			continue
		}
		// (b) the per-node error list
		entries := parseNodeErrors(c.ErrText)
		m := incompleteRe.FindStringSubmatch(c.ErrText)
		if m == nil {
			continue
		}
		nerr, _ := strconv.Atoi(m[1])
		ok := len(entries) == nerr
		w.rule("C07.error-list-complete", ok)
		if !ok {
			w.violate("C07", "error-list-count", "", "call t%d (%s): error reports %d node errors but lists %d", c.Tok, c.Stub, nerr, len(entries))
		}
		seen := map[uint32]int{}
		targeted := map[uint32]int{}
		for _, si := range c.Targets {
			targeted[nodeID(si)] = si
		}
		var lastReplies map[uint32]int64
		if n := len(c.QFInv); n > 0 {
			lastReplies = c.QFInv[n-1].Replies
		}
		for _, e := range entries {
			seen[e.ID]++
			si, isT := targeted[e.ID]
			w.rule("C07.error-names-targeted-node", isT)
			if !isT {
				w.violate("C07", "error-wrong-node", "", "call t%d (%s): error entry names node %d, which the call did not target", c.Tok, c.Stub, e.ID)
				continue
			}
			if _, replied := lastReplies[e.ID]; replied {
				w.violate("C07", "error-and-reply", "", "call t%d (%s): node %d contributed both a reply and an error", c.Tok, c.Stub, e.ID)
			}
			// classify the entry
			var planned *HandlerRec
			for _, h := range w.handlersFor(c, si) {
				if h.ErrCode != 0 {
					planned = h
				}
			}
			if planned != nil && e.Code == codes.Code(planned.ErrCode).String() && !(e.Code == "Unavailable" && e.Desc != planned.ErrMsg && w.touched(si)) {
				// (a handler that fails with Unavailable on a node whose connection was hit by a
				// fault: the entry may just as well be the connection's error - classified below)
				okMsg := e.Desc == planned.ErrMsg
				w.rule("C07.handler-status-carried", okMsg)
				if !okMsg {
					w.violate("C07", "handler-status-message", "", "call t%d (%s): node %d's handler failed with message %q but the caller sees %q", c.Tok, c.Stub, e.ID, planned.ErrMsg, e.Desc)
				}
				continue
			}
			if planned != nil && !w.touched(si) && e.Code != "" {
				w.rule("C07.handler-status-carried", false)
				w.violate("C07", "handler-status-code", "", "call t%d (%s): node %d's handler failed with code %s (%q) but the caller sees %q", c.Tok, c.Stub, e.ID, codes.Code(planned.ErrCode), planned.ErrMsg, e.Text)
				continue
			}
			// a connection-type failure: must be of the unavailable kind
			w.probe("conn-error:" + errKind(e))
			okKind := e.Code == "Unavailable"
			w.rule("C07.connection-error-is-unavailable", okKind)
			if !okKind {
				w.violate("C07", "connection-error-kind", errKind(e), "call t%d (%s): node %d's connection failed and the caller sees %q, which is not an Unavailable-type error", c.Tok, c.Stub, e.ID, e.Text)
			}
		}
		ids := make([]uint32, 0, len(seen))
		for id := range seen {
			ids = append(ids, id)
		}
		sort.Slice(ids, func(i, j int) bool { return ids[i] < ids[j] })
		for _, id := range ids {
			w.rule("C07.one-error-per-node", seen[id] == 1)
			if seen[id] > 1 {
				w.violate("C07", "duplicate-node-error", "", "call t%d (%s): node %d is reported %d times in the error list", c.Tok, c.Stub, id, seen[id])
			}
		}
		if errors.Is(c.Err, gorums.Incomplete) {
			// ended by exhaustion: every targeted node is in the reply set or in the error list, exactly once
			for _, si := range c.Targets {
				id := nodeID(si)
				_, replied := lastReplies[id]
				okOnce := (replied && seen[id] == 0) || (!replied && seen[id] == 1)
				w.rule("C07.exhaustion-accounts-for-every-node", okOnce)
				if !okOnce {
					w.violate("C07", "exhaustion-accounting", "", "call t%d (%s) ended by exhaustion but node %d has %d error entries and replied=%v", c.Tok, c.Stub, id, seen[id], replied)
				}
			}
		}
	}
}

func errKind(e nodeErrEntry) string {
	if e.Code != "" {
		d := e.Desc
		if len(d) > 40 {
			d = d[:40]
		}
		// strip addresses and numbers so that the key is stable
		d = regexp.MustCompile(`[0-9.:]+`).ReplaceAllString(d, "#")
		return e.Code + ":" + strings.TrimSpace(d)
	}
	t := e.Text
	if len(t) > 40 {
		t = t[:40]
	}
	return "raw:" + regexp.MustCompile(`[0-9.:]+`).ReplaceAllString(t, "#")
}

// ---------------------------------------------------------------- C08

func genC08(g *gen) {
	c := g.cfg
	c.NMgrs = 1
	c.FaultFree = false
	c.NServers = pick(g.r, 1, 2, 3, 3)
	g.genConfigs(false)
	n := c.NServers
	// node behaviours
	beh := make([]string, n)
	for i := range beh {
		beh[i] = pick(g.r, "ok", "ok", "hang", "hang", "down", "blackhole", "slow")
		switch beh[i] {
		case "down":
			c.Down = append(c.Down, i)
		case "blackhole":
			c.Down = append(c.Down, i)
			c.Blackhole = append(c.Blackhole, i)
		}
	}
	pool := stubsOf("rpc", "qc", "async", "corr", "cstream", "mcast", "ucast")
	nThreads := 1 + g.r.IntN(3)
	// flow-control scenario: a node that does not read (hung handler) is sent so much data by
	// Background-context calls that the per-node sender blocks inside a write
	flood := -1
	for i, b := range beh {
		if b == "hang" && g.chance(0.5) {
			flood = i
		}
	}
	if flood >= 0 {
		c.SendBuffer = pick(g.r, 0, 0, 1, 3)
		th := &Thread{Mgr: 0}
		kb := pick(g.r, 32, 64, 128, 256)
		for sent := 0; sent < 300; sent += kb {
			s := pick(g.r, stubByName["Multicast"], stubByName["Unicast"], stubByName["QuorumCallAsync"])
			op := g.callOp(0, s, 0, 0)
			op.Cfg = 0
			op.Node = flood
			op.NoSendWait = true
			op.PadKB = kb
			op.Ctx = "bg"
			op.Plans = map[int]*HandlerPlan{flood: {Reply: "hang"}}
			if op.QF != nil {
				op.QF = &QFSpec{Threshold: 1, NeedServer: -1}
			}
			th.Ops = append(th.Ops, op)
		}
		g.prog.Threads = append(g.prog.Threads, th)
	}
	for t := 0; t < nThreads; t++ {
		th := &Thread{Mgr: 0}
		nOps := 1 + g.r.IntN(4)
		for i := 0; i < nOps; i++ {
			s := pool[g.r.IntN(len(pool))]
			op := g.callOp(0, s, 0, 0.05)
			members := g.prog.Configs[0][op.Cfg]
			if s.Kind == "rpc" || s.Kind == "ucast" {
				members = []int{op.Node}
			}
			for _, si := range members {
				if s.ReqEmpty {
					continue
				}
				p := &HandlerPlan{Reply: "ok", Late: g.chance(0.5)}
				if beh[si] == "hang" && g.chance(0.8) {
					p.Reply = "hang"
				}
				if beh[si] == "slow" {
					p.Late = true
				}
				if s.Kind == "cstream" {
					p.StreamK = g.r.IntN(3)
				}
				op.Plans[si] = p
			}
			if op.QF != nil {
				op.QF.Threshold = 1 + g.r.IntN(len(members)+1)
			}
			if s.Kind == "corr" || s.Kind == "cstream" {
				op.QF = &QFSpec{NeedServer: -1, DoneAt: 50}
			}
			// most calls have a context that ends; some traffic uses Background
			x := g.r.Float64()
			switch {
			case x < 0.5:
				op.Ctx = "cancel"
				op.CancelW = pick(g.r, 0.3, 0.1, 0.03)
			case x < 0.8:
				op.Ctx = "deadline"
				op.DeadlineMs = pick(g.r, 1, 10, 50, 1000)
			default:
				op.Ctx = "bg"
			}
			if s.Kind == "mcast" || s.Kind == "ucast" {
				op.NoSendWait = g.chance(0.3)
			}
			th.Ops = append(th.Ops, op)
		}
		g.prog.Threads = append(g.prog.Threads, th)
	}
}

// afterC08: at the start of a grace phase every call whose context has ended is an
// obligation; after at most 10 s of simulated time of fair scheduling - during which nothing
// that is stuck gets unstuck (no heal, no restart, no gate opens, no other context ends by the
// harness's doing) - it must have returned / completed.
func afterC08(w *World) {
	for round := 0; round < 2; round++ {
		var obl []*Call
		w.mu.Lock()
		for _, c := range w.calls[1:] {
			if c.InvokeSeq != 0 && c.CtxEndSeq != 0 && (c.DoneSeq == 0 || c.ReturnSeq == 0) {
				obl = append(obl, c)
			}
		}
		w.mu.Unlock()
		w.grace(fmt.Sprintf("grace%d", round), false, 10*time.Second, 8000, nil)
		for _, c := range obl {
			done := c.DoneSeq != 0 && c.ReturnSeq != 0
			w.rule("C08.returns-after-context-end", done)
			if !done {
				where := "awaiting completion"
				if c.ReturnSeq == 0 {
					where = "inside the stub invocation"
				}
				w.violate("C08", "stuck-after-context-end", w.c08Key(c), "call t%d (%s, ctx %s) is still %s 10 s (simulated) after its context ended at step %d: %s", c.Tok, c.Stub, c.CtxKind, where, c.CtxEndStep, w.whereIs(c))
			}
		}
	}
	// errors match the context's error
	for _, c := range w.calls[1:] {
		if c.InvokeSeq == 0 || c.DoneSeq == 0 || c.Err == nil || c.CtxEndSeq == 0 || c.CtxEndSeq > c.DoneSeq {
			continue
		}
		cerr := c.ctx.Err()
		ok := cerr != nil && errors.Is(c.Err, cerr)
		if !ok && !w.mgrs[c.Mgr].closed && cerr != nil {
			// The call may instead report what its nodes reported, if that arrived first: an RPC
			// the node's own error, a quorum-type call Incomplete with one entry per failed node.
			// But then every such node error must be a genuine one - a gRPC status (a handler's
			// error, or Unavailable for a broken connection) or the context's own error - and not
			// something made up for a request that merely was not sent in time.
			genuine := func(text string) bool {
				return statusRe.MatchString(text) || strings.Contains(text, cerr.Error())
			}
			switch {
			case c.Info.Kind == "rpc":
				if genuine(c.ErrText) {
					continue
				}
			case errors.Is(c.Err, gorums.Incomplete):
				all := true
				for _, e := range parseNodeErrors(c.ErrText) {
					if !genuine(e.Text) {
						all = false
					}
				}
				if all {
					continue
				}
			}
		} else if !ok {
			continue // the manager was closed: C12's business
		}
		w.rule("C08.error-matches-context", ok)
		if !ok {
			w.violate("C08", "error-mismatch", "", "call t%d (%s) ended with %q after its context ended with %v; errors.Is does not match", c.Tok, c.Stub, firstLine(c.ErrText), cerr)
		}
	}
	for _, c := range w.calls[1:] {
		if c.Panic != "" {
			w.violate("C08", "panic", "", "call t%d (%s) panicked: %s", c.Tok, c.Stub, c.Panic)
		}
	}
	w.defaultSettle()
}

// whereIs describes where the goroutine(s) of call c are blocked.
func (w *World) whereIs(c *Call) string {
	name := fmt.Sprintf("c%d/t%d", c.Mgr, c.Thread)
	var parts []string
	for _, ti := range w.sched.Parked() {
		if strings.HasPrefix(ti.Name, name) {
			parts = append(parts, fmt.Sprintf("task %s parked at %s (enabled=%v)", ti.Name, ti.Site, ti.Enabled))
		}
	}
	parts = append(parts, w.stuckReport())
	return strings.Join(parts, "; ")
}

// c08Key classifies a stuck call by the library function its goroutine is blocked in.
func (w *World) c08Key(c *Call) string {
	if c.ReturnSeq != 0 {
		return c.Info.Kind + ":completion"
	}
	fn := "unknown"
	gid := strconv.FormatUint(w.sched.GIDOf(fmt.Sprintf("c%d/t%d", c.Mgr, c.Thread)), 10)
	for _, g := range goroutines() {
		if g.ID == gid && g.Lib != "" {
			fn = g.Lib
		}
	}
	return c.Info.Kind + ":" + fn
}

// ---------------------------------------------------------------- C09

func genC09(g *gen) {
	c := g.cfg
	c.NMgrs = pick(g.r, 1, 1, 2)
	g.genConfigs(true)
	if g.chance(0.4) {
		// calls also end by node errors: connections are reset and servers crash and come
		// back while calls are in flight (all servers are up and reachable again in settle)
		c.FaultFree = false
		for k := g.r.IntN(3); k >= 0; k-- {
			si := g.r.IntN(c.NServers)
			at := 30 + g.r.IntN(500)
			if g.chance(0.6) {
				g.prog.Faults = append(g.prog.Faults, &Fault{Kind: "reset", Srv: si, Mgr: -1, AtStep: at})
			} else {
				g.prog.Faults = append(g.prog.Faults, &Fault{Kind: "crash", Srv: si, Mgr: -1, AtStep: at}, &Fault{Kind: "restart", Srv: si, AtStep: at + 1 + g.r.IntN(200)})
			}
		}
	}
	pool := stubsOf("rpc", "qc", "async", "corr", "cstream", "mcast", "ucast")
	nThreads := 1 + g.r.IntN(4)
	for t := 0; t < nThreads; t++ {
		th := &Thread{Mgr: g.r.IntN(c.NMgrs)}
		nOps := 1 + g.r.IntN(6)
		for i := 0; i < nOps; i++ {
			s := pool[g.r.IntN(len(pool))]
			op := g.callOp(th.Mgr, s, 0, 0.15)
			for _, p := range plansInOrder(op.Plans) {
				// handlers always return or release: slow, never hung
				p.Late = g.chance(0.7)
				if s.Kind == "cstream" {
					p.StreamK = g.r.IntN(5)
					p.StreamEnd = pick(g.r, "", "", "err")
					if p.StreamEnd == "err" {
						p.Code, p.Msg = 2, "stream-end"
					}
				}
			}
			if op.QF != nil {
				op.QF.Slow = g.chance(0.5)
			}
			if s.Kind == "corr" || s.Kind == "cstream" {
				op.QF = &QFSpec{NeedServer: -1, DoneAt: 1 + g.r.IntN(4), Slow: g.chance(0.5)}
			}
			g.ctxFor(op, 0.35, 0.15)
			if s.Kind == "mcast" || s.Kind == "ucast" {
				op.NoSendWait = g.chance(0.4)
			}
			th.Ops = append(th.Ops, op)
		}
		g.prog.Threads = append(g.prog.Threads, th)
	}
}

// probeAll issues one probe RPC with a fresh context to every node of every open manager and
// runs a fair phase until all probes have returned or maxTime has passed. It returns the
// (manager, server) pairs whose probe did not succeed.
func (w *World) probeAll(round int, maxTime time.Duration) (failed []string, detail map[string]string) {
	type probe struct {
		m    *Mgr
		si   int
		done bool
		ok   bool
		err  string
	}
	var probes []*probe
	for _, m := range w.mgrs {
		if m.closed || !m.ready {
			continue
		}
		var srvs []int
		for _, si := range m.nodeSrv {
			srvs = append(srvs, si)
		}
		sort.Ints(srvs)
		for _, si := range srvs {
			if !w.servers[si].Up {
				continue
			}
			p := &probe{m: m, si: si}
			probes = append(probes, p)
			op := &Op{Kind: "call", Stub: "GRPCCall", Node: si, Ctx: "bg", Plans: map[int]*HandlerPlan{}}
			if w.Cfg.ProbeNSW {
				op = &Op{Kind: "call", Stub: "Unicast", Node: si, Ctx: "bg", NoSendWait: true, Plans: map[int]*HandlerPlan{}}
			}
			simrt.GoNamed(fmt.Sprintf("c%d/probe%d.%d", m.Idx, round, si), "probe", func() {
				c := w.newCall(m, -1, round, op)
				c.IsProbe = true
				node := w.nodeOf(m, si)
				if w.Cfg.ProbeNSW {
					// fire and forget; the probe has succeeded once the current incarnation has handled it
					c.InvokeSeq = w.ev("probe-invoke", "tok=%d mgr=%d srv=%d (one-way, no send waiting)", c.Tok, m.Idx, si)
					t0 := w.elapsed()
					func() {
						defer func() {
							if r := recover(); r != nil {
								p.err = fmt.Sprint("panic: ", r)
							}
						}()
						c.res = invokeStub(context.Background(), nil, node, c, c.Req, []gorums.CallOption{gorums.WithNoSendWaiting()})
					}()
					w.mu.Lock()
					c.ReturnSeq = w.nextSeq()
					c.DoneSeq = c.ReturnSeq
					w.mu.Unlock()
					simrt.Gate("probe-nsw-wait", func() bool {
						for _, h := range w.hrecs {
							if h.Tok == c.Tok && h.Srv == si && h.Inc == w.servers[si].Inc {
								return true
							}
						}
						return w.elapsed()-t0 > maxTime
					})
					for _, h := range w.handlersFor(c, si) {
						if h.Inc == w.servers[si].Inc {
							p.ok = true
						}
					}
					if !p.ok && p.err == "" {
						p.err = "the one-way message was never handled by the node"
					}
					w.ev("probe-return", "tok=%d ok=%v err=%q", c.Tok, p.ok, firstLine(p.err))
					p.done = true
					return
				}
				ctx, cancel := context.WithTimeout(context.Background(), maxTime)
				defer cancel()
				c.InvokeSeq = w.ev("probe-invoke", "tok=%d mgr=%d srv=%d", c.Tok, m.Idx, si)
				c.InvokeStep = w.step
				func() {
					defer func() {
						if r := recover(); r != nil {
							p.err = fmt.Sprint("panic: ", r)
						}
					}()
					c.res = invokeStub(ctx, nil, node, c, c.Req, nil)
				}()
				w.mu.Lock()
				c.ReturnSeq = w.nextSeq()
				c.DoneSeq = c.ReturnSeq
				c.ReturnStep, c.DoneStep = w.step, w.step
				w.mu.Unlock()
				if c.res.err != nil {
					p.err = c.res.err.Error()
				} else if r, ok := c.res.ret.(interface{ GetResult() int64 }); ok {
					sp := parseStamp(r.GetResult())
					p.ok = sp.Tok == c.Tok && sp.Srv == si && sp.Inc == w.servers[si].Inc
					if !p.ok {
						p.err = fmt.Sprintf("wrong reply {%v}", sp)
					}
				}
				w.ev("probe-return", "tok=%d ok=%v err=%q", c.Tok, p.ok, firstLine(p.err))
				p.done = true
			})
		}
	}
	w.grace(fmt.Sprintf("probe%d", round), false, maxTime+time.Second, 20000, func() bool {
		for _, p := range probes {
			if !p.done {
				return false
			}
		}
		return true
	})
	detail = map[string]string{}
	for _, p := range probes {
		if !p.ok {
			k := fmt.Sprintf("%s>srv%d", p.m.Name, p.si)
			failed = append(failed, k)
			if !p.done {
				detail[k] = "probe did not return"
			} else {
				detail[k] = p.err
			}
		}
	}
	return failed, detail
}

// probeUntilUsable repeats probe rounds over the horizon; it returns the pairs that never answered.
func (w *World) probeUntilUsable() (dead []string, detail map[string]string) {
	h := w.horizon()
	start := w.simTime
	round := 0
	for {
		failed, det := w.probeAll(round, 5*time.Second)
		round++
		if len(failed) == 0 {
			return nil, nil
		}
		dead, detail = failed, det
		if w.simTime-start >= h || round > 40 {
			return dead, detail
		}
		// wait a growing while before the next round (back-off timers may be pending)
		w.grace(fmt.Sprintf("wait%d", round), false, time.Duration(round)*2*time.Second, 20000, nil)
	}
}

// wedgeKey classifies a disabled node by what its library goroutines wait for.
func (w *World) wedgeKey() string {
	keys := map[string]bool{}
	for _, ti := range w.sched.Parked() {
		if ti.Enabled {
			continue
		}
		if ti.Role == "sender" && strings.Contains(ti.Wait, "RWMutex") && strings.Contains(ti.Wait, "write") {
			keys["sender-waits-for-stream-write-lock"] = true
		} else if strings.Contains(ti.Wait, "Mutex") && !strings.HasPrefix(ti.Site, "h:") {
			keys["waits-for-mutex"] = true
		}
	}
	for _, g := range goroutines() {
		if g.Lib == "" || len(g.Frames) == 0 {
			continue
		}
		if strings.Contains(g.State, "chan send") && (strings.Contains(g.Lib, "routeResponse") || strings.Contains(g.Lib, "cancelPendingMsgs")) {
			keys["receiver-blocked-handing-reply-to-ended-call"] = true
		}
	}
	var ks []string
	for k := range keys {
		ks = append(ks, k)
	}
	sort.Strings(ks)
	if len(ks) == 0 {
		return "unclassified"
	}
	return strings.Join(ks, "+")
}

func afterC09(w *World) {
	// settle: everything reachable, all gates open, fair
	w.settle("settle", true, 0, w.horizon(), 20000, w.allCallsDone)
	dead, detail := w.probeUntilUsable()
	w.rule("C09.nodes-stay-usable", len(dead) == 0)
	if len(dead) > 0 {
		w.violate("C09", "node-disabled", w.wedgeKey(), "after the workload ended and every server was reachable with all handlers returned, probe calls with fresh contexts to %v never succeeded within %v (simulated): %v | %s", dead, w.horizon(), detail, w.stuckReport())
	}
	w.checkCore()
}

// ---------------------------------------------------------------- C10

func genC10(g *gen) {
	c := g.cfg
	c.NMgrs = pick(g.r, 1, 1, 2)
	c.FaultFree = false
	g.genConfigs(false)
	n := c.NServers
	step := 20
	for i := 0; i < n; i++ {
		switch pick(g.r, "up", "up", "down-at-start", "crash-restart", "crash-restart", "crash-twice") {
		case "down-at-start":
			c.Down = append(c.Down, i)
			g.prog.Faults = append(g.prog.Faults, &Fault{Kind: "restart", Srv: i, AtStep: step + g.r.IntN(500)})
		case "crash-restart":
			a := step + g.r.IntN(400)
			g.prog.Faults = append(g.prog.Faults, &Fault{Kind: "crash", Srv: i, AtStep: a}, &Fault{Kind: "restart", Srv: i, AtStep: a + 1 + g.r.IntN(300)})
		case "crash-twice":
			a := step + g.r.IntN(200)
			b := a + 1 + g.r.IntN(150)
			d := b + 1 + g.r.IntN(150)
			e := d + 1 + g.r.IntN(150)
			g.prog.Faults = append(g.prog.Faults, &Fault{Kind: "crash", Srv: i, AtStep: a}, &Fault{Kind: "restart", Srv: i, AtStep: b},
				&Fault{Kind: "crash", Srv: i, AtStep: d}, &Fault{Kind: "restart", Srv: i, AtStep: e})
		}
	}
	pool := stubsOf("rpc", "qc", "async", "mcast", "ucast", "corr")
	if g.chance(0.15) {
		// an application that only ever fires and forgets: nothing but no-send-waiting one-way calls
		c.ProbeNSW = true
		pool = stubsOf("mcast", "ucast")
	}
	for m := 0; m < c.NMgrs; m++ {
		th := &Thread{Mgr: m}
		nOps := 2 + g.r.IntN(8)
		for i := 0; i < nOps; i++ {
			s := pool[g.r.IntN(len(pool))]
			op := g.callOp(m, s, 0, 0.05)
			op.Ctx = pick(g.r, "bg", "deadline", "deadline")
			op.DeadlineMs = pick(g.r, 50, 1000, 5000)
			if c.ProbeNSW {
				op.NoSendWait = true
			}
			if op.QF != nil {
				op.QF.Threshold = 1 + g.r.IntN(n)
				op.QF.Slow = false
			}
			if s.Kind == "corr" {
				op.QF = &QFSpec{NeedServer: -1, DoneAt: 1 + g.r.IntN(n)}
			}
			th.Ops = append(th.Ops, op)
			if g.chance(0.3) {
				th.Ops = append(th.Ops, &Op{Kind: "pause"})
			}
		}
		g.prog.Threads = append(g.prog.Threads, th)
	}
}

func afterC10(w *World) {
	// (ii) no back-off wait, placed deliberately: crash a server, let the client notice for a
	// while (its receiver ends up sleeping in a back-off), restart the server and probe at once
	r := rand.New(rand.NewPCG(w.Cfg.Seed, 0x5eed0c10))
	for k := 0; k < 2 && w.Cfg.NServers > 0; k++ {
		s := w.servers[r.IntN(w.Cfg.NServers)]
		if s.Up {
			w.crashServer(s)
			w.faultsInc("crash")
		}
		down := time.Duration(1+r.IntN(3000)) * time.Millisecond
		w.grace("down", false, down, 4000, nil)
		w.startServer(s)
		w.faultsInc("restart")
		for _, m := range w.mgrs {
			if m.ready && !m.closed {
				w.noBackoffProbe(m, s.Idx)
			}
		}
	}
	// make sure every server is (back) up, then settle
	for _, s := range w.servers {
		if !s.Up {
			w.startServer(s)
			w.faultsInc("restart")
		}
	}
	w.settle("settle", true, 0, w.horizon(), 20000, w.allCallsDone)
	// (i) eventual contact: probes over the horizon must reach the current incarnation
	dead, detail := w.probeUntilUsable()
	w.rule("C10.nodes-that-come-back-are-used-again", len(dead) == 0)
	if len(dead) > 0 {
		w.violate("C10", "not-contacted-again", w.wedgeKey(), "after every server was up again, probe calls with fresh contexts to %v never succeeded within %v (simulated): %v | %s", dead, w.horizon(), detail, w.stuckReport())
	}
	// (ii) no back-off wait
	w.checkNoBackoffWait()
	// (iii) metadata and connect callback per stream
	w.checkStreams()
	w.checkCore()
}

// checkNoBackoffWait: for every probe handled by a server, once the reply bytes have been
// delivered to the client process the call must complete without the clock advancing.
func (w *World) checkNoBackoffWait() {
	for _, m := range w.mgrs {
		if m.closed || !m.ready {
			continue
		}
		var srvs []int
		for _, si := range m.nodeSrv {
			srvs = append(srvs, si)
		}
		sort.Ints(srvs)
		for _, si := range srvs {
			if !w.servers[si].Up {
				continue
			}
			w.noBackoffProbe(m, si)
		}
	}
}

func (w *World) noBackoffProbe(m *Mgr, si int) {
	if w.Cfg.ProbeNSW {
		return // this run's application never issues anything but fire-and-forget calls
	}
	op := &Op{Kind: "call", Stub: "GRPCCall", Node: si, Ctx: "bg", Plans: map[int]*HandlerPlan{}}
	var c *Call
	done := false
	simrt.GoNamed(fmt.Sprintf("c%d/nbprobe.%d.%d", m.Idx, si, w.step), "probe", func() {
		c = w.newCall(m, -1, 0, op)
		c.IsProbe = true
		node := w.nodeOf(m, si)
		ctx, cancel := context.WithCancel(context.Background())
		defer cancel()
		c.cancel = cancel
		c.InvokeSeq = w.ev("nbprobe-invoke", "tok=%d mgr=%d srv=%d", c.Tok, m.Idx, si)
		func() {
			defer func() { _ = recover() }()
			c.res = invokeStub(ctx, nil, node, c, c.Req, nil)
		}()
		w.mu.Lock()
		c.ReturnSeq = w.nextSeq()
		c.DoneSeq = c.ReturnSeq
		w.mu.Unlock()
		w.ev("nbprobe-return", "tok=%d err=%v", c.Tok, c.res.err)
		done = true
	})
	// phase A: run (fair, with clock) until the handler has returned and the network is quiet
	replied := func() bool {
		if done {
			return true
		}
		if c == nil {
			return false
		}
		hs := w.handlersFor(c, si)
		if len(hs) == 0 || hs[len(hs)-1].ReturnSeq == 0 {
			return false
		}
		for _, a := range w.net.Actions() {
			if a.Kind == "deliver" {
				return false
			}
		}
		// also the server-side send goroutine must have written the reply: no task of that
		// server is runnable any more
		for _, ti := range w.sched.Parked() {
			if ti.Enabled && strings.HasPrefix(ti.Name, fmt.Sprintf("srv%d#", si)) {
				return false
			}
		}
		return true
	}
	w.grace("nbprobe-a", false, 30*time.Second, 8000, replied)
	// the call receives the reply: if the restarted server has handled the request and replied
	// (no fault is injected in this phase), the call must not end with an error instead
	gotReply := func() {
		if c == nil || !done {
			return
		}
		hs := w.handlersFor(c, si)
		if len(hs) == 1 && hs[0].ReturnSeq != 0 && hs[0].ErrCode == 0 && hs[0].Inc == w.servers[si].Inc {
			ok := c.res.err == nil
			w.rule("C10.handled-request-is-answered", ok)
			if !ok {
				w.violate("C10", "reply-lost-after-restart", "", "the restarted server %d handled the request of call t%d and replied, no fault followed, but the call ended with %q instead of the reply", si, c.Tok, firstLine(c.res.err.Error()))
			}
		}
	}
	if c == nil || done {
		if c != nil && c.res.err == nil {
			w.rule("C10.reply-needs-no-backoff-timer", true)
		}
		gotReply()
		return
	}
	defer gotReply()
	if !replied() {
		// the request was not handled within 30 s: not judged here (eventual contact is rule (i))
		if c.cancel != nil {
			c.cancel()
		}
		w.grace("nbprobe-abort", false, 5*time.Second, 4000, func() bool { return done })
		return
	}
	// phase B: the reply has reached the client process; no clock from here on
	w.grace("nbprobe-b", true, 0, 8000, func() bool { return done })
	w.rule("C10.reply-needs-no-backoff-timer", done)
	if !done {
		w.violate("C10", "reply-waits-for-timer", "", "the restarted server %d handled the request of call t%d and its reply was delivered to the client process, but the call does not complete unless the clock advances: %s", si, c.Tok, w.stuckReport())
		// let it finish so that the run can go on
		w.grace("nbprobe-c", false, w.horizon(), 8000, func() bool { return done })
		if !done && c.cancel != nil {
			c.cancel()
			w.grace("nbprobe-d", false, 5*time.Second, 4000, func() bool { return done })
		}
	}
}

// checkStreams: every server-side stream saw the connect callback exactly once, before its
// first handler, carrying the manager's general and per-node metadata.
func (w *World) checkStreams() {
	for _, s := range w.servers {
		for _, st := range s.allStreams {
			ok := st.Callbacks == 1 && !st.NoCallback
			w.rule("C10.connect-callback-once-per-stream", ok)
			if !ok {
				w.violate("C10", "connect-callback", "", "server %d stream %d (client %s): connect callback ran %d times (handler before callback: %v)", s.Idx, st.ID, st.Client, st.Callbacks, st.NoCallback)
			}
			if len(st.entered) > 0 && st.entered[0].EnterSeq < st.CallbackSeq {
				w.violate("C10", "callback-after-handler", "", "server %d stream %d: a handler started before the connect callback", s.Idx, st.ID)
			}
			var m *Mgr
			for _, x := range w.mgrs {
				if x.Name == st.Client {
					m = x
				}
			}
			if m == nil {
				continue
			}
			want := w.expectedMD(m, s.ID)
			okMD := true
			for k, v := range want {
				got := st.MD.Get(k)
				if len(got) != 1 || got[0] != v {
					okMD = false
				}
			}
			for _, k := range []string{"client", "general", "pernode"} {
				if _, wanted := want[k]; !wanted && len(st.MD.Get(k)) > 0 {
					okMD = false
				}
			}
			w.rule("C10.metadata-on-every-connection", okMD)
			if !okMD {
				w.violate("C10", "metadata", "", "server %d stream %d (client %s, incarnation %d): metadata %v, expected %v", s.Idx, st.ID, st.Client, st.Inc, st.MD, want)
			}
		}
	}
}
