package world

import (
	"encoding/json"
	"fmt"
	"testing"
	"time"
)

// Minimisation of a replay file (DESIGN.md 4.7). A candidate is a (program, trace) pair; it
// is executed in a fresh bubble with the lenient replay chooser and accepted iff the run
// shows a violation of the same class (property, rule, key) and no harness-internal error.
// An accepted candidate is replaced by what was actually executed (the recorded trace of
// that run), so the result replays strictly.

type minimiser struct {
	t        *testing.T
	rf       *ReplayFile
	deadline time.Time
	runs     int
	accepted int
	log      []string
}

func cloneProgram(p *Program) *Program {
	b, _ := json.Marshal(p)
	var q Program
	_ = json.Unmarshal(b, &q)
	return &q
}

func sameClass(rf *ReplayFile, res *Result) *Violation {
	if res.Internal != "" || res.Diverged != "" {
		return nil
	}
	for i := range res.Violations {
		v := &res.Violations[i]
		if v.Property == rf.Property && v.Rule == rf.Rule && v.Key == rf.Key {
			return v
		}
	}
	return nil
}

// try runs a candidate; on success it returns the executed trace and the violation.
func (m *minimiser) try(prog *Program, trace []string) ([]string, *Violation, *Result) {
	if time.Now().After(m.deadline) {
		return nil, nil, nil
	}
	m.runs++
	if trace == nil {
		trace = []string{}
	}
	res := Run(m.t, m.rf.Config, cloneProgram(prog), RunOptions{Replay: trace, Lenient: true})
	if v := sameClass(m.rf, res); v != nil {
		m.accepted++
		return res.Trace, v, res
	}
	return nil, nil, nil
}

func progSize(p *Program) int {
	n := len(p.Faults)
	for _, th := range p.Threads {
		n += 1 + len(th.Ops)
		for _, op := range th.Ops {
			n += len(op.Observers)
		}
	}
	return n
}

// dropOp removes op i of thread ti if no later op of the thread refers to it; references
// to later ops are shifted.
func dropOp(p *Program, ti, i int) bool {
	th := p.Threads[ti]
	for j := i + 1; j < len(th.Ops); j++ {
		if (th.Ops[j].Kind == "get" || th.Ops[j].Kind == "wait") && th.Ops[j].Ref == i {
			return false
		}
	}
	for j := i + 1; j < len(th.Ops); j++ {
		if (th.Ops[j].Kind == "get" || th.Ops[j].Kind == "wait") && th.Ops[j].Ref > i {
			th.Ops[j].Ref--
		}
	}
	th.Ops = append(th.Ops[:i:i], th.Ops[i+1:]...)
	return true
}

// Minimise shrinks rf in place (Program, Trace, Detail, LogHash) within the budget.
func Minimise(t *testing.T, rf *ReplayFile, budget time.Duration) (report map[string]any, ok bool) {
	m := &minimiser{t: t, rf: rf, deadline: time.Now().Add(budget)}
	prog, trace := cloneProgram(rf.Program), rf.Trace
	size0, len0 := progSize(prog), len(trace)
	// the starting point must reproduce under the lenient chooser as well
	tr, v, _ := m.try(prog, trace)
	if v == nil {
		return map[string]any{"error": "the recorded run does not reproduce"}, false
	}
	trace = tr
	changed := true
	for round := 0; changed && round < 4 && time.Now().Before(m.deadline); round++ {
		changed = false
		// ---- program: faults, threads (ops emptied: thread indices name tasks), ops, observers
		for i := len(prog.Faults) - 1; i >= 0; i-- {
			c := cloneProgram(prog)
			c.Faults = append(c.Faults[:i:i], c.Faults[i+1:]...)
			if tr, v, _ := m.try(c, trace); v != nil {
				prog, trace, changed = c, tr, true
			}
		}
		for ti := len(prog.Threads) - 1; ti >= 0; ti-- {
			if len(prog.Threads[ti].Ops) == 0 {
				continue
			}
			c := cloneProgram(prog)
			c.Threads[ti].Ops = nil
			if tr, v, _ := m.try(c, trace); v != nil {
				prog, trace, changed = c, tr, true
				continue
			}
			for i := len(prog.Threads[ti].Ops) - 1; i >= 0; i-- {
				c := cloneProgram(prog)
				if !dropOp(c, ti, i) {
					continue
				}
				if tr, v, _ := m.try(c, trace); v != nil {
					prog, trace, changed = c, tr, true
				}
			}
		}
		for ti := range prog.Threads {
			for i := range prog.Threads[ti].Ops {
				if len(prog.Threads[ti].Ops[i].Observers) == 0 {
					continue
				}
				c := cloneProgram(prog)
				c.Threads[ti].Ops[i].Observers = nil
				if tr, v, _ := m.try(c, trace); v != nil {
					prog, trace, changed = c, tr, true
				}
			}
		}
		// trailing empty threads can go (earlier ones keep the task names of later ones stable)
		for len(prog.Threads) > 0 && len(prog.Threads[len(prog.Threads)-1].Ops) == 0 {
			c := cloneProgram(prog)
			c.Threads = c.Threads[:len(c.Threads)-1]
			if tr, v, _ := m.try(c, trace); v != nil {
				prog, trace, changed = c, tr, true
			} else {
				break
			}
		}
		// ---- schedule: shortest reproducing prefix (the fair phases finish the rest) ...
		lo, hi := 0, len(trace)
		for lo < hi && time.Now().Before(m.deadline) {
			mid := (lo + hi) / 2
			if tr, v, _ := m.try(prog, trace[:mid]); v != nil && len(tr) < len(trace) {
				trace, changed = tr, true
				hi = min(mid, len(trace))
			} else {
				lo = mid + 1
			}
		}
		// ... then delta debugging on blocks of choices
		for n := 2; len(trace) >= 2 && time.Now().Before(m.deadline); {
			chunk := (len(trace) + n - 1) / n
			reduced := false
			for start := 0; start < len(trace); start += chunk {
				end := min(start+chunk, len(trace))
				cand := append(append([]string(nil), trace[:start]...), trace[end:]...)
				if tr, v, _ := m.try(prog, cand); v != nil && len(tr) < len(trace) {
					trace, reduced, changed = tr, true, true
					break
				}
			}
			if reduced {
				n = max(n-1, 2)
			} else {
				if chunk == 1 {
					break
				}
				n = min(n*2, len(trace))
			}
		}
	}
	// final: strict replay, twice, same class and same event log
	var hashes []string
	var last *Violation
	for k := 0; k < 2; k++ {
		res := Run(t, rf.Config, cloneProgram(prog), RunOptions{Replay: trace})
		v := sameClass(rf, res)
		if v == nil {
			return map[string]any{"error": fmt.Sprintf("minimised candidate does not replay strictly (diverged=%q)", res.Diverged), "runs": m.runs}, false
		}
		last = v
		hashes = append(hashes, res.LogHash)
	}
	if hashes[0] != hashes[1] {
		return map[string]any{"error": "minimised candidate is not deterministic", "runs": m.runs}, false
	}
	rf.Program, rf.Trace, rf.Detail, rf.LogHash, rf.Minimised = prog, trace, last.Detail, hashes[0], true
	return map[string]any{"runs": m.runs, "accepted": m.accepted, "program_size": []int{size0, progSize(prog)}, "trace_len": []int{len0, len(trace)}}, true
}
