package world

import (
	"fmt"
	"sort"
)

func init() {
	profileGen["C03"] = genC03
	profileAfterMain["C03"] = func(w *World) {
		w.defaultSettle()
		w.checkCore()
		w.checkFIFO()
	}
	profileGen["C04"] = genC04
	profileAfterMain["C04"] = func(w *World) {
		// grace: fair scheduling, but no gate opens and nothing heals
		w.grace("grace", false, 10e9, 6000, nil)
		w.checkRelease()
		w.defaultSettle()
		w.checkCore()
	}
}

// ---------------------------------------------------------------- C03

func genC03(g *gen) {
	c := g.cfg
	c.NMgrs = 1
	if c.BackoffBaseMs > 0 && c.BackoffBaseMs < 100 {
		// tiny back-off bases double as gRPC connect timeouts and make connection
		// attempts fail; keep most runs of this profile free of connection failures
		c.BackoffBaseMs = 1000
		c.BackoffMaxMs = max(c.BackoffMaxMs, 1000)
	}
	g.genConfigs(true)
	pool := stubsOf("rpc", "qc", "async", "corr", "cstream", "mcast", "ucast")
	nThreads := pick(g.r, 1, 1, 2, 3)
	nOps := 3 + g.r.IntN(8)
	if c.Tier == "thorough" {
		nOps = 3 + g.r.IntN(12)
	}
	releasing := g.chance(0.5)
	faulty := g.chance(0.3)
	if faulty {
		c.SendBuffer = pick(g.r, 1, 3, 16, 16)
		pool = stubsOf("async", "async", "corr", "mcast", "ucast", "qc", "rpc")
	}
	for t := 0; t < nThreads; t++ {
		th := &Thread{Mgr: 0}
		for i := 0; i < nOps; i++ {
			s := pool[g.r.IntN(len(pool))]
			op := g.callOp(0, s, 0, 0.1)
			// partial quorums so that stragglers are pending when the next call is issued
			if op.QF != nil {
				n := len(g.prog.Configs[0][op.Cfg])
				op.QF.Threshold = 1 + g.r.IntN(n)
			}
			if s.Kind == "corr" {
				op.QF = &QFSpec{NeedServer: -1, DoneAt: 1 + g.r.IntN(3)}
			}
			for _, p := range plansInOrder(op.Plans) {
				p.Late = g.chance(0.7)
				// the order in which handlers start must not depend on how (often) earlier handlers release
				if releasing {
					p.Release = pick(g.r, "", "", "early", "twice", "helper", "concurrent")
				}
			}
			if s.Kind == "cstream" {
				g.safeStream(op, s)
			}
			if s.Kind == "mcast" || s.Kind == "ucast" {
				op.NoSendWait = g.chance(0.5)
			}
			th.Ops = append(th.Ops, op)
		}
		g.prog.Threads = append(g.prog.Threads, th)
	}
	if faulty {
		// connections that break while requests are queued or being written: whatever reaches a
		// server over one (new) connection must still arrive in the order of issue
		c.FaultFree = false
		for k := 1 + g.r.IntN(3); k > 0; k-- {
			si := g.r.IntN(c.NServers)
			a := 20 + g.r.IntN(400)
			switch pick(g.r, "reset", "reset", "crash") {
			case "reset":
				g.prog.Faults = append(g.prog.Faults, &Fault{Kind: "reset", Srv: si, Mgr: -1, AtStep: a})
			case "crash":
				g.prog.Faults = append(g.prog.Faults, &Fault{Kind: "crash", Srv: si, Mgr: -1, AtStep: a}, &Fault{Kind: "restart", Srv: si, AtStep: a + 1 + g.r.IntN(100)})
			}
		}
	}
}

// checkFIFO: for any two calls A, B of one manager such that A's stub invocation returned
// in an earlier scheduler step than B's was invoked, every server stream that started
// handlers for both started A's first. In runs without cancellation and connection fault
// every targeted server handles every call exactly once.
func (w *World) checkFIFO() {
	type key struct {
		st *StreamRec
	}
	byStream := map[*StreamRec][]*HandlerRec{}
	for _, h := range w.hrecs {
		if h.Tok > 0 {
			byStream[h.Stream] = append(byStream[h.Stream], h)
		}
	}
	var streams []*StreamRec
	for st := range byStream {
		streams = append(streams, st)
	}
	sort.Slice(streams, func(i, j int) bool {
		if streams[i].Srv != streams[j].Srv {
			return streams[i].Srv < streams[j].Srv
		}
		return streams[i].ID < streams[j].ID
	})
	for _, st := range streams {
		hs := byStream[st]
		sort.Slice(hs, func(i, j int) bool { return hs[i].EnterSeq < hs[j].EnterSeq })
		for i := 0; i < len(hs); i++ {
			for j := i + 1; j < len(hs); j++ {
				first, second := w.calls[hs[i].Tok], w.calls[hs[j].Tok]
				if first.Mgr != second.Mgr || first == second {
					continue
				}
				// hs[i] entered before hs[j]; violation if second ≺ first
				if second.ReturnSeq != 0 && second.ReturnStep < first.InvokeStep {
					w.rule("C03.fifo", false)
					w.violate("C03", "fifo", "", "server %d stream %d started the handler of call t%d (%s, invoked at step %d) before the handler of call t%d (%s), whose invocation had already returned at step %d",
						st.Srv, st.ID, first.Tok, first.Stub, first.InvokeStep, second.Tok, second.Stub, second.ReturnStep)
				} else if first.ReturnSeq != 0 && first.ReturnStep < second.InvokeStep {
					w.rule("C03.fifo", true)
				}
			}
		}
	}
	// exactly-once delivery in undisturbed runs
	ns := w.net.Snapshot()
	undisturbed := !w.anyConnFault() && w.faults["cancel"] == 0 && ns.DialTimeouts == 0 && ns.Refused == 0 && ns.Resets == 0 && ns.Closes == 0
	for _, c := range w.calls[1:] {
		if c.InvokeSeq == 0 || c.ReqVal == "" {
			continue
		}
		if c.CtxKind != "bg" {
			undisturbedCall := false
			_ = undisturbedCall
			continue
		}
		if !undisturbed {
			continue
		}
		for _, si := range c.Targets {
			n := len(w.handlersFor(c, si))
			w.rule("C03.every-server-handles-every-call", n == 1)
			if n == 0 {
				w.violate("C03", "not-handled", "", "call t%d (%s): server %d never started a handler although no context was cancelled and no connection failed", c.Tok, c.Stub, si)
			}
		}
	}
}

// ---------------------------------------------------------------- C04

func genC04(g *gen) {
	c := g.cfg
	c.NMgrs = pick(g.r, 1, 2, 2)
	c.NServers = pick(g.r, 1, 2, 3)
	g.genConfigs(false)
	pool := stubsOf("rpc", "qc", "async", "mcast", "ucast", "cstream")
	for m := 0; m < c.NMgrs; m++ {
		nThreads := 1 + g.r.IntN(2)
		for t := 0; t < nThreads; t++ {
			th := &Thread{Mgr: m}
			nOps := 2 + g.r.IntN(6)
			for i := 0; i < nOps; i++ {
				s := pool[g.r.IntN(len(pool))]
				op := g.callOp(m, s, 0, 0.1)
				members := g.prog.Configs[m][op.Cfg]
				if s.Kind == "rpc" || s.Kind == "ucast" {
					members = []int{op.Node}
				}
				for _, si := range members {
					if s.ReqEmpty {
						continue
					}
					p := &HandlerPlan{Reply: "ok", Late: g.chance(0.6)}
					p.Release = pick(g.r, "", "", "early", "early", "twice", "helper", "concurrent")
					// manager 0 may have handlers that hang (with or without having released)
					if m == 0 && g.chance(0.2) {
						p.Reply = "hang"
					}
					if s.Kind == "cstream" {
						p.StreamK = g.r.IntN(3)
						if p.Reply == "hang" {
							p.Reply = "ok"
							p.StreamEnd = "hang"
						}
					}
					op.Plans[si] = p
				}
				if op.QF != nil {
					op.QF.Threshold = 1 + g.r.IntN(len(members))
					op.QF.Slow = false
				}
				if s.Kind == "cstream" {
					total := 0
					for _, si := range op.targets(g, m) {
						if p := op.Plans[si]; p != nil {
							total += p.StreamK
						} else {
							total++
						}
					}
					op.QF = &QFSpec{NeedServer: -1, DoneAt: max(1, total)}
				}
				th.Ops = append(th.Ops, op)
			}
			g.prog.Threads = append(g.prog.Threads, th)
		}
	}
}

// targets returns the server indices the op will actually target.
func (op *Op) targets(g *gen, m int) []int {
	members := g.prog.Configs[m][op.Cfg]
	var out []int
	for _, si := range members {
		skip := false
		if op.PerNode != nil {
			for _, s := range op.PerNode.Skip {
				if s == si {
					skip = true
				}
			}
		}
		if !skip {
			out = append(out, si)
		}
	}
	return out
}

// safeStream plans a server-stream call so that it completes exactly with the last streamed
// reply: no reply is outstanding when the call ends. (Replies that outlive a stream call can
// block the node's receiver - a defect owned by C09 - which would mask what this profile is after.)
func (g *gen) safeStream(op *Op, s StubInfo) {
	total := 0
	for _, si := range op.targets(g, 0) {
		p := &HandlerPlan{Reply: "ok", Late: g.chance(0.7), StreamK: 1 + g.r.IntN(3)}
		if s.ReqEmpty {
			p = nil
			total++ // default plan streams one reply
		} else {
			op.Plans[si] = p
			total += p.StreamK
		}
	}
	op.QF = &QFSpec{NeedServer: -1, DoneAt: max(1, total)}
}

// hangs reports whether the handler plan never returns before the settle phase.
func (p *HandlerPlan) hangs() bool {
	return p != nil && (p.Reply == "hang" || p.StreamEnd == "hang")
}

// checkRelease evaluates C04's liveness clauses at the end of the grace phase (no gate
// has opened): a call none of whose own handlers hangs must have completed unless, on one of
// its targeted servers, a handler of the same client connection has entered and not yet
// released (then it is legitimately delayed). In particular handlers that hang on another
// manager's connection, or that hang after having released, delay nobody.
func (w *World) checkRelease() {
	for _, p := range w.sched.TakePanics() {
		w.violate("C04", "panic", "", "task %s crashed: %s", p.Task, p.Value)
	}
	for _, c := range w.calls[1:] {
		if c.InvokeSeq == 0 || c.ReqVal == "" || c.CtxKind != "bg" || c.Info.Kind == "cstream" {
			continue // (a server-stream call need not complete at all)
		}
		own := false
		for _, p := range c.Op.Plans {
			if p.hangs() {
				own = true
			}
		}
		if own {
			continue
		}
		if c.DoneSeq != 0 {
			w.rule("C04.unblocked-calls-complete", true)
			continue
		}
		// find a legitimate holder
		client := w.mgrs[c.Mgr].Name
		holder := ""
		for _, si := range c.Targets {
			for _, st := range w.servers[si].allStreams {
				if st.Client != client {
					continue
				}
				for h := range st.outstanding {
					holder = fmt.Sprintf("handler ser=%d (tok %d) on server %d", h.Serial, h.Tok, si)
				}
			}
		}
		// calls queued behind an earlier call of the same thread cannot be judged here
		if holder != "" {
			continue
		}
		// an earlier call of the same manager that is itself still legitimately waiting may hold the
		// per-node sender (synchronous hand-over); only flag when no call of this manager has a holder
		blockedPeer := false
		for _, o := range w.calls[1:] {
			if o.Mgr != c.Mgr || o == c || o.InvokeSeq == 0 || o.DoneSeq != 0 {
				continue
			}
			for _, si := range o.Targets {
				for _, st := range w.servers[si].allStreams {
					if st.Client == client && len(st.outstanding) > 0 {
						blockedPeer = true
					}
				}
			}
		}
		if blockedPeer {
			continue
		}
		w.rule("C04.unblocked-calls-complete", false)
		w.violate("C04", "blocked-without-holder", "", "call t%d (%s) of manager %s has not completed although none of its handlers hangs and no handler on its connections is holding the per-connection order (all entered handlers have released or returned): %s", c.Tok, c.Stub, client, w.explainPending(c))
	}
	// a handler of manager B must never wait for a handler of manager A: every non-hanging call
	// of a manager none of whose handlers hangs at all must be complete
	hangMgr := map[int]bool{}
	for _, c := range w.calls[1:] {
		for _, p := range c.Op.Plans {
			if p.hangs() {
				hangMgr[c.Mgr] = true
			}
		}
	}
	for _, c := range w.calls[1:] {
		if c.InvokeSeq == 0 || c.ReqVal == "" || c.CtxKind != "bg" || hangMgr[c.Mgr] || c.Info.Kind == "cstream" {
			continue
		}
		w.rule("C04.other-clients-unaffected", c.DoneSeq != 0)
		if c.DoneSeq == 0 {
			w.violate("C04", "other-client-delayed", "", "call t%d (%s) of manager %d, none of whose handlers ever hangs, has not completed while handlers of another client's connection hang: %s", c.Tok, c.Stub, c.Mgr, w.explainPending(c))
		}
	}
}
