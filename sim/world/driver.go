package world

import (
	"fmt"
	"math"
	"math/rand/v2"
	"sort"
	"strconv"
	"strings"
	"time"

	"gorumsim/simnet"
	"gorumsim/simrt"
	"gorumsim/simrt/dsync"
)

// Action is one enabled scheduler action.
type Action struct {
	Key    string
	Kind   string // task net tick cancel fault
	Weight float64
	NAlt   int
	Bytes  int
	Role   string
	Site   string
	run    func(aux uint64)
}

// Chooser decides which enabled action runs next. It returns the index of the
// action and the auxiliary choice for it, or -1 to stop (replay divergence or
// end of trace).
type Chooser interface {
	Choose(w *World, acts []Action) (int, uint64)
}

type cancelAct struct {
	c      *Call
	weight float64
	fired  bool
}

type worldAct struct {
	key     string
	weight  float64
	enabled func() bool
	run     func()
	done    bool
}

func (w *World) addCancel(c *Call) {
	wt := c.Op.CancelW
	if wt <= 0 {
		wt = 0.05
	}
	w.mu.Lock()
	w.cancels = append(w.cancels, &cancelAct{c: c, weight: wt})
	w.mu.Unlock()
}

// enabledActions computes the canonical (sorted by key) list of enabled actions.
func (w *World) enabledActions(fair bool) []Action {
	var acts []Action
	for _, ti := range w.sched.Parked() {
		if !ti.Enabled {
			continue
		}
		ti := ti
		acts = append(acts, Action{Key: "task:" + ti.Name + "@" + ti.Site, Kind: "task", Weight: 1, NAlt: ti.NAlt, Role: ti.Role, Site: ti.Site,
			run: func(aux uint64) {
				w.lastTask = ti.Name
				w.sched.Release(ti.T, aux)
			}})
	}
	for _, na := range w.net.Actions() {
		na := na
		acts = append(acts, Action{Key: na.Key, Kind: "net", Weight: 1, Bytes: na.Bytes, run: func(aux uint64) { na.Run(int(aux)) }})
	}
	if !fair {
		w.mu.Lock()
		for _, ca := range w.cancels {
			if ca.fired || ca.c.DoneSeq != 0 && ca.c.ReturnSeq != 0 {
				continue
			}
			ca := ca
			acts = append(acts, Action{Key: "cancel:t" + strconv.Itoa(ca.c.Tok), Kind: "cancel", Weight: ca.weight, run: func(uint64) {
				ca.fired = true
				w.ctxEnded(ca.c, "cancel")
				ca.c.CtxErr = nil
				ca.c.cancel()
				w.faultsInc("cancel")
			}})
		}
		for _, pa := range w.pending {
			if pa.done || (pa.enabled != nil && !pa.enabled()) {
				continue
			}
			pa := pa
			acts = append(acts, Action{Key: pa.key, Kind: "fault", Weight: pa.weight, run: func(uint64) {
				pa.done = true
				pa.run()
			}})
		}
		w.mu.Unlock()
	}
	sort.SliceStable(acts, func(i, j int) bool { return acts[i].Key < acts[j].Key })
	return acts
}

// frozenFor returns the call for which the clock is frozen, if it has not returned yet.
func (w *World) frozenFor() *Call {
	w.mu.Lock()
	defer w.mu.Unlock()
	if w.freeze != nil && w.freeze.ReturnSeq != 0 {
		w.freeze = nil
	}
	return w.freeze
}

func (w *World) unfreeze() {
	w.mu.Lock()
	w.freeze = nil
	w.mu.Unlock()
}

func (w *World) faultsInc(kind string) {
	w.mu.Lock()
	w.faults[kind]++
	w.mu.Unlock()
}

// tick advances the fake clock by d (all timers within d fire in order).
func (w *World) tick(d time.Duration) {
	w.ev("tick", "d=%v", d)
	sleepPast(d)
	w.simTime += d
}

// sleepPast advances the fake clock by d and then by one more nanosecond. A timer of the
// system that is due at exactly the instant at which the driver wakes up may fire before or
// after the driver resumes (timers with equal deadlines are not ordered, and a due timer only
// fires once the bubble is idle again); the extra nanosecond makes the bubble idle once more,
// so that every timer due at that instant has fired before the driver acts.
func sleepPast(d time.Duration) {
	time.Sleep(d)
	time.Sleep(time.Nanosecond)
}

var tickChoices = []time.Duration{time.Millisecond, 5 * time.Millisecond, 20 * time.Millisecond, 100 * time.Millisecond, 500 * time.Millisecond, 2 * time.Second, 10 * time.Second, 60 * time.Second, 300 * time.Second}

// step executes one scheduler step; it returns false when the chooser stops.
func (w *World) doStep(fair bool) bool {
	quiesce()
	w.mu.Lock()
	w.step++
	w.mu.Unlock()
	w.fireStepFaults()
	acts := w.enabledActions(fair)
	// the tick actions: low, geometrically decreasing weight while other actions
	// exist; when nothing else is enabled one of them is forced (escalating)
	idle := len(acts) == 0
	frozen := false
	if c := w.frozenFor(); c != nil {
		if idle {
			// nothing but the clock can act and the stub has still not returned
			w.rule("C06.no-send-waiting-needs-no-timer", false)
			w.violate("C06", "no-send-waiting-waits", "", "call t%d (%s with the no-send-waiting option, issued on an idle manager whose node %v is not connected) has not returned and nothing but the clock can make progress: it waits for the connection (dial timeout): %s", c.Tok, c.Stub, w.Cfg.Down, w.whereIs(c))
			w.unfreeze()
		} else {
			frozen = true
		}
	}
	if !idle {
		w.idleTicks = 0
		w.idleRun = 0
	} else {
		w.idleRun++
	}
	for i, d := range tickChoices {
		if frozen {
			break
		}
		d := d
		wt := w.Cfg.TickP / float64(int(1)<<uint(i+1))
		acts = append(acts, Action{Key: "tick:" + d.String(), Kind: "tick", Weight: wt, run: func(uint64) { w.tick(d) }})
	}
	if idle {
		if _, isReplay := w.chooser.(*replayChooser); !isReplay { // a replayed trace contains the forced ticks
			i := forcedTick(w, acts)
			w.trace = append(w.trace, acts[i].Key)
			w.sigParts = append(w.sigParts, "tick")
			acts[i].run(0)
			return true
		}
	}
	idx, aux := w.chooser.Choose(w, acts)
	if idx < 0 {
		return false
	}
	a := acts[idx]
	key := a.Key
	if aux != 0 {
		key += "|" + strconv.FormatUint(aux, 10)
	}
	w.trace = append(w.trace, key)
	if a.Kind == "task" {
		w.sigParts = append(w.sigParts, a.Role+"@"+a.Site)
	} else {
		w.sigParts = append(w.sigParts, a.Kind)
	}
	a.run(aux)
	return true
}

func nonTick(acts []Action) int {
	n := 0
	for _, a := range acts {
		if a.Kind != "tick" {
			n++
		}
	}
	return n
}

// ---------------------------------------------------------------- choosers

// randomChooser is the weighted random walk with optional stickiness.
type randomChooser struct {
	sticky float64 // probability to continue the last task when it is enabled (0 = plain random)
}

func auxFor(w *World, a Action) uint64 {
	r := w.rng
	if a.Kind == "net" {
		// torn delivery: only a strict prefix of the in-flight bytes arrives now
		if a.Bytes > 1 && w.Cfg.PartialP > 0 && r.Float64() < w.Cfg.PartialP {
			return uint64(1 + r.IntN(a.Bytes-1))
		}
		return 0
	}
	if a.NAlt < 2 {
		return 0
	}
	// half of the time keep source order
	if r.IntN(2) == 0 {
		return 0
	}
	n := uint64(1)
	for i := 2; i <= a.NAlt && i <= 12; i++ {
		n *= uint64(i)
	}
	return r.Uint64N(n)
}

func (rc *randomChooser) Choose(w *World, acts []Action) (int, uint64) {
	if rc.sticky > 0 && w.lastTask != "" {
		pre := "task:" + w.lastTask + "@"
		for i, a := range acts {
			if a.Kind == "task" && strings.HasPrefix(a.Key, pre) {
				if w.rng.Float64() < rc.sticky {
					return i, auxFor(w, a)
				}
				break
			}
		}
	}
	total := 0.0
	for _, a := range acts {
		total += a.Weight
	}
	if total <= 0 {
		// only zero-weight ticks left: forced tick with growing size
		return forcedTick(w, acts), 0
	}
	x := w.rng.Float64() * total
	for i, a := range acts {
		x -= a.Weight
		if x < 0 {
			return i, auxFor(w, a)
		}
	}
	return len(acts) - 1, 0
}

// forcedTick picks a tick when nothing else can run: mostly small, sometimes a jump.
func forcedTick(w *World, acts []Action) int {
	var ticks []int
	for i, a := range acts {
		if a.Kind == "tick" {
			ticks = append(ticks, i)
		}
	}
	w.idleTicks++
	// geometric preference for small ticks, growing with consecutive idle ticks
	k := 0
	for k < len(ticks)-1 && (w.rng.IntN(3) == 0 || w.idleTicks > 4*(k+1)) {
		k++
	}
	return ticks[k]
}

// pctChooser implements PCT-style priority scheduling: every action source
// (task, connection direction, ...) gets a random priority when first seen; the
// highest-priority enabled source runs; at d random change points the running
// source is demoted below all others.
type pctChooser struct {
	prio    map[string]float64
	changes map[int]bool
	low     float64
	steps   int
}

func newPCT(r *rand.Rand, depth, horizon int) *pctChooser {
	p := &pctChooser{prio: map[string]float64{}, changes: map[int]bool{}, low: 0}
	for i := 0; i < depth; i++ {
		p.changes[1+r.IntN(horizon)] = true
	}
	return p
}

func srcOf(a Action) string {
	switch a.Kind {
	case "task":
		k := strings.TrimPrefix(a.Key, "task:")
		if i := strings.LastIndexByte(k, '@'); i >= 0 {
			k = k[:i]
		}
		return "t:" + k
	case "tick":
		return "tick"
	}
	return a.Key
}

func (p *pctChooser) Choose(w *World, acts []Action) (int, uint64) {
	p.steps++
	best, bestP := -1, math.Inf(-1)
	anyNonTick := nonTick(acts) > 0
	for i, a := range acts {
		if a.Kind == "tick" && anyNonTick {
			continue
		}
		if a.Kind == "cancel" || a.Kind == "fault" {
			// rare events keep their probabilistic nature under PCT
			if w.rng.Float64() < a.Weight*0.2 {
				return i, 0
			}
			continue
		}
		s := srcOf(a)
		pr, ok := p.prio[s]
		if !ok {
			pr = 1 + w.rng.Float64()
			p.prio[s] = pr
		}
		if pr > bestP {
			best, bestP = i, pr
		}
	}
	if best < 0 {
		return forcedTick(w, acts), 0
	}
	if acts[best].Kind == "tick" {
		return forcedTick(w, acts), 0
	}
	if p.changes[p.steps] {
		p.low -= 1
		p.prio[srcOf(acts[best])] = p.low
	}
	return best, auxFor(w, acts[best])
}

// fairChooser is the round-robin chooser of settle phases: the enabled action
// whose source ran least recently is chosen; ticks only when nothing else is enabled.
type fairChooser struct {
	last map[string]int
	n    int
}

func (f *fairChooser) Choose(w *World, acts []Action) (int, uint64) {
	f.n++
	best, bestAge := -1, math.MaxInt
	for i, a := range acts {
		if a.Kind == "tick" {
			continue
		}
		s := srcOf(a)
		l := f.last[s]
		if l < bestAge {
			best, bestAge = i, l
		}
	}
	if best < 0 {
		return -2, 0 // caller decides about ticks
	}
	f.last[srcOf(acts[best])] = f.n
	return best, 0
}

// replayChooser replays a recorded trace by key. In lenient mode (minimiser) a recorded
// choice that is not enabled is skipped, and a task step whose site differs is matched by
// task name; in strict mode the first mismatch is a divergence.
type replayChooser struct {
	trace    []string
	pos      int
	lenient  bool
	Skipped  int
	Diverged string
}

func splitAux(ent string) (string, uint64) {
	if i := strings.LastIndexByte(ent, '|'); i >= 0 {
		if v, err := strconv.ParseUint(ent[i+1:], 10, 64); err == nil {
			return ent[:i], v
		}
	}
	return ent, 0
}

func taskOfKey(key string) string {
	if !strings.HasPrefix(key, "task:") {
		return ""
	}
	if i := strings.LastIndexByte(key, '@'); i >= 0 {
		return key[:i]
	}
	return key
}

func (r *replayChooser) Choose(w *World, acts []Action) (int, uint64) {
	for r.pos < len(r.trace) {
		ent := r.trace[r.pos]
		key, aux := splitAux(ent)
		for i, a := range acts {
			if a.Key == key {
				r.pos++
				if a.Kind == "net" && aux >= uint64(a.Bytes) {
					aux = 0 // (lenient) fewer bytes in flight than recorded: deliver all
				}
				return i, aux
			}
		}
		if !r.lenient {
			var en []string
			for _, a := range acts {
				if a.Kind != "tick" {
					en = append(en, a.Key)
				}
			}
			r.Diverged = fmt.Sprintf("step %d: recorded action %q is not enabled; enabled: %v", r.pos, ent, en)
			return -1, 0
		}
		if tk := taskOfKey(key); tk != "" {
			for i, a := range acts {
				if a.Kind == "task" && taskOfKey(a.Key) == tk {
					r.pos++
					if a.NAlt < 2 {
						aux = 0
					}
					return i, aux
				}
			}
		}
		r.pos++
		r.Skipped++
	}
	return -1, 0
}

// ---------------------------------------------------------------- faults

// fireStallFaults (race-detector runs, targeted stalls): shortly after a goroutine has been held up
// at the run's stall site, break a connection - the fault lands while that goroutine is still
// asleep, so that what it does next meets whatever the failure handling has done in the meantime.
// The stall counter is read without synchronisation on purpose (no happens-before edge).
func (w *World) fireStallFaults() {
	if w.stalls == nil || !w.Cfg.FaultOnStall || w.phase != "main" {
		return
	}
	if n := dsync.StallsFired(w.stalls); n > w.stallsSeen {
		w.stallsSeen = n
		if w.stallFaultAt == 0 {
			w.stallFaultAt = w.step + 1 + w.rng.IntN(4)
		}
	}
	if w.stallFaultAt != 0 && w.step >= w.stallFaultAt && w.stallFaults < 6 {
		w.stallFaultAt = 0
		w.stallFaults++
		var down []int
		for _, sv := range w.servers {
			if !sv.Up {
				down = append(down, sv.Idx)
			}
		}
		if x := w.rng.IntN(10); x < 2 && !w.stallClosed {
			// Close strikes while that goroutine is held up (once per run)
			w.stallClosed = true
			w.inject(&Fault{Kind: "close", Mgr: w.rng.IntN(len(w.mgrs)), K: 1})
			w.faultsInc("close-after-stall")
		} else if len(down) > 0 && x < 8 {
			// a node comes back while the goroutine that was waiting for it is held up
			w.inject(&Fault{Kind: "restart", Srv: down[w.rng.IntN(len(down))]})
			w.faultsInc("restart-after-stall")
		} else {
			si := w.rng.IntN(len(w.servers))
			w.inject(&Fault{Kind: "reset", Srv: si, Mgr: -1})
			w.faultsInc("reset-after-stall")
		}
	}
}

func (w *World) fireStepFaults() {
	w.fireStallFaults()
	for _, f := range w.Prog.Faults {
		if f.fired || f.Site != "" {
			continue
		}
		if f.AtStep > 0 && w.step >= f.AtStep && w.phase == "main" {
			w.inject(f)
		}
	}
	// site-triggered faults that were armed by OnPark
	for _, f := range w.Prog.Faults {
		if !f.fired && f.armed && w.phase == "main" {
			w.inject(f)
		}
	}
}

func (w *World) inject(f *Fault) {
	f.fired = true
	if f.Site != "" {
		defer func() {
			if f.fired {
				w.faultsInc("site-triggered")
			}
		}()
	}
	switch f.Kind {
	case "crash":
		s := w.servers[f.Srv]
		if s.Up {
			w.crashServer(s)
			w.faultsInc("crash")
		}
	case "restart":
		s := w.servers[f.Srv]
		if !s.Up {
			w.startServer(s)
			w.faultsInc("restart")
		}
	case "reset":
		for _, c := range w.net.Conns() {
			if c.Server == addrOf(f.Srv) && (f.Mgr < 0 || c.Client == w.mgrs[f.Mgr].Name) {
				w.net.Reset(c)
				w.faultsInc("reset")
				w.ev("fault-reset", "conn=%s", c.Key)
			}
		}
	case "partition":
		w.net.Partition(w.mgrs[f.Mgr].Name, addrOf(f.Srv), true)
		w.faultsInc("partition")
		w.ev("fault-partition", "mgr=%d srv=%d", f.Mgr, f.Srv)
	case "heal":
		w.net.HealAll()
		w.faultsInc("heal")
	case "stall":
		for _, c := range w.net.Conns() {
			if c.Server == addrOf(f.Srv) && (f.Mgr < 0 || c.Client == w.mgrs[f.Mgr].Name) {
				w.net.Stall(c, f.Dir, true)
				w.faultsInc("stall")
			}
		}
	case "cancel":
		var c *Call
		w.mu.Lock()
		for _, x := range w.calls[1:] {
			if x.Thread == f.Thread && x.OpIdx == f.OpIdx && !x.IsProbe {
				c = x
			}
		}
		w.mu.Unlock()
		if c == nil || c.cancel == nil {
			// the call does not exist yet: stay armed and strike as soon as it does
			f.fired = false
			return
		}
		if c.CtxEndSeq == 0 {
			w.mu.Lock()
			for _, ca := range w.cancels {
				if ca.c == c {
					ca.fired = true
				}
			}
			w.mu.Unlock()
			w.ctxEnded(c, "cancel")
			c.cancel()
			w.faultsInc("cancel")
		}
	case "close":
		m := w.mgrs[f.Mgr]
		n := f.K
		if !m.closed {
			simrt.GoNamed(fmt.Sprintf("c%d/fault-closer", m.Idx), "closer", func() { w.doClose(m, n) })
			w.faultsInc("close")
		}
	}
}

var _ = simnet.New
