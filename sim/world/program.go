package world

import (
	"context"
	"fmt"
	"sync"

	"github.com/relab/gorums"
	"google.golang.org/protobuf/proto"
)

// RunConfig is the (explicit, serialisable) swarm configuration of one run.
type RunConfig struct {
	Seed     uint64
	Profile  string
	Tier     string
	NServers int
	NMgrs    int

	SendBuffer    int
	ServerBuffer  int
	DialTimeoutMs int
	WithBlock     bool
	BackoffBaseMs int
	BackoffMaxMs  int
	BackoffMult   float64
	BackoffJitter float64
	Metadata      string // none general pernode both
	NetCap        int

	Strategy   string  // random sticky pct
	PreemptP   float64 // sticky: probability to pre-empt the running task
	PCTDepth   int
	TickP      float64 // relative weight of a tick while other actions are enabled
	PartialP   float64 // probability that a delivery is a strict prefix
	MaxSteps   int
	ExtraSteps int
	FaultFree  bool

	// Down lists servers that are not started at the beginning.
	Down []int
	// Blackhole lists servers whose address swallows dials while nothing listens (instead of refusing).
	Blackhole  []int
	SiteFaults bool
	// CorruptP: probability that a marshalled frame is corrupted in transit (C13)
	CorruptP float64
	// AllFailScenario (C11): the run consists of one stream call all of whose nodes fail (stored
	// in replay files)
	AllFailScenario bool `json:",omitempty"`
	// ProbeNSW (C10): the whole workload of the run and the probes consist of fire-and-forget one-way
	// calls (WithNoSendWaiting); a probe succeeds when the node's current incarnation has handled it
	ProbeNSW bool
	// FreeTasks: harness tasks are not scheduled one at a time (race-detector runs: the
	// scheduler's hand-over would order every pair of accesses by happens-before)
	FreeTasks bool
	// Stalls (race-detector runs, T6): per mille of the library's statements that are stall sites in
	// this run (0 = none), share of the passes that stall, and the largest duration as 1µs << MaxShift
	StallPermille int `json:",omitempty"`
	StallHitPct   int `json:",omitempty"`
	StallMaxShift int `json:",omitempty"`
	// StallOnly: a targeted run - the single stall site, held up for 1µs << (StallMinShift..StallMaxShift)
	StallOnly     string `json:",omitempty"`
	StallMinShift int    `json:",omitempty"`
	// FaultOnStall: a connection reset follows each stall of a targeted run within a few driver steps
	FaultOnStall bool `json:",omitempty"`
}

// Program is the workload and fault plan of a run; explicit data so that it can
// be shrunk and stored in replay files.
type Program struct {
	// Configs[m] lists, per configuration of manager m, the member server indices.
	Configs [][][]int
	Threads []*Thread
	Faults  []*Fault
}

// Thread is one client goroutine of a manager.
type Thread struct {
	Mgr int
	Ops []*Op
}

// Op is one operation of a thread.
type Op struct {
	// Kind: call | get | wait | close | pause
	Kind string
	// call
	Stub       string
	Cfg        int
	Node       int    // server index for rpc / unicast
	Ctx        string // bg | cancel | deadline
	DeadlineMs int
	NoSendWait bool
	PerNode    *PerNodeSpec
	QF         *QFSpec
	Plans      map[int]*HandlerPlan // by server index; missing = default (reply at once)
	Observers  []ObserverSpec
	CancelW    float64 // relative weight of the cancel action (ctx == cancel)
	// CancelAfter (ctx == cancel, synchronous and send-waiting calls): the thread cancels the
	// context right after the stub has returned, as `defer cancel()` does
	CancelAfter bool
	PadKB      int     // payload padding in KiB (flow-control scenarios)
	// FreezeClock (no-send-waiting one-way call, first op of the only thread): from the invocation
	// until the stub returns the driver does not advance the clock; if the system goes idle before
	// the stub has returned, the call waits for a timer (i.e. for the connection)
	FreezeClock bool
	// get / wait: index of an earlier call op in the same thread
	Ref int
	// close: number of concurrent Close invocations (1 or 2)
	N int
}

// PerNodeSpec describes a per-node argument function.
type PerNodeSpec struct {
	Skip     []int // server indices for which f returns nil
	// Empty: server indices for which f returns a valid message whose fields are all default
	// (zero size on the wire) - a message all the same, not "no message" (C06 profile, one-way stubs)
	Empty []int
	Distinct bool  // distinct payload per node
}

// QFSpec is the plan of a puppet quorum function for one call.
type QFSpec struct {
	// Threshold: quorum when the reply set has at least this many entries (0 = never).
	Threshold int
	// NeedServer >= 0: quorum additionally requires a reply of this server index.
	NeedServer int
	// Exactly: quorum when the reply set has exactly Threshold entries (a non-monotone quorum
	// function: it reports a quorum for the Threshold-th reply and for no later one)
	Exactly bool `json:",omitempty"`
	// Slow: the quorum function passes a scheduler gate before returning.
	Slow bool
	// StallMs: the first invocation does not return before this much (simulated) time has passed
	// since it began (a quorum function that is really slow: replies pile up meanwhile)
	StallMs int `json:",omitempty"`
	// NonNilOnFalse: return a non-nil value together with quorum == false.
	NonNilOnFalse bool
	// Levels (correctable): level returned by the k-th invocation (last repeats).
	Levels []int
	// DoneAt (correctable): done is reported by the k-th invocation (1-based; 0 = use Threshold).
	DoneAt int
}

// HandlerPlan is the plan of the puppet handler of one server for one call.
type HandlerPlan struct {
	Reply   string // ok | err | hang
	Code    int
	Msg     string
	Release string // "" (implicit on return) | early | twice | helper | concurrent
	Late    bool   // return is a separate scheduling decision
	// ErrWithResp (Reply == err): the handler returns a non-nil response value together with its error
	ErrWithResp bool
	// streams
	StreamK   int    // number of replies to stream
	StreamEnd string // "" (return nil) | err | hang
}

// ObserverSpec describes an observer task of a correctable call.
type ObserverSpec struct {
	Kind  string // get | watch | done
	Level int
	N     int // get: number of samples
}

// Fault is one planned fault.
type Fault struct {
	Kind string // crash restart reset partition heal stall unstall blackhole close
	Srv  int
	Mgr  int
	// AtStep: fire when the main phase reaches this step (time-random placement).
	AtStep int
	// Site trigger: fire when a task with Role parks at Site for the K-th time
	// (close faults use K for the number of concurrent invocations and AtVisit for the visit).
	Role    string
	Site    string
	K       int
	AtVisit int `json:",omitempty"`
	// cancel faults: the call issued by op OpIdx of thread Thread gets its context cancelled
	Thread int `json:",omitempty"`
	OpIdx  int `json:",omitempty"`
	Dir     string
	// fired is set once the fault has been injected
	fired bool
	hits  int
	armed bool
}

// Call is the record of one stub invocation.
type Call struct {
	Tok    int
	Stub   string
	Info   StubInfo
	Mgr    int
	Thread int
	OpIdx  int
	Op     *Op
	CfgIdx int
	// Targets are the server indices actually targeted (after per-node skipping).
	Targets   []int
	Members   []int
	Req       proto.Message
	ReqVal    string
	reqSuffix string // "#u<hex>": unknown fields carried by the request (C13 profile)
	// per-node payloads expected at the servers (server idx -> Request.Value)
	Expect map[int]string

	CtxKind    string
	ctx        context.Context
	cancel     context.CancelFunc
	CtxEndSeq  uint64 // seq of the event at which the context ended (0 = not ended)
	CtxEndStep int
	CtxErr     error

	InvokeSeq  uint64
	InvokeStep int
	ReturnSeq  uint64 // stub returned
	ReturnStep int
	DoneSeq    uint64 // call complete (sync: = ReturnSeq; async: future done observed; corr: Done closed observed)
	DoneStep   int
	Panic      string

	// outcome
	res          stubResult
	HasRes       bool
	Ret          proto.Message
	Err          error
	ErrText      string
	Gets         []getResult // async Get results / correctable snapshots
	getsStarted  int
	QFInv        []*QFInvocation
	qfBusy       bool
	qfMu         sync.Mutex
	PostClose    bool // invoked after Close of its manager returned
	IsProbe      bool
	nodeSrv      map[uint32]int
	Observed     []Observation
	watchStarted []int
}

type getResult struct {
	Seq uint64
	Ret proto.Message
	Err error
}

// Observation is one observer sample of a correctable call.
type Observation struct {
	InvSeq, RetSeq uint64
	Kind           string // get watch-closed done-closed
	WatchLevel     int
	Level          int // watch: watched level; get: returned level
	Ret            proto.Message
	Err            error
	Panic          string
}

// QFInvocation records one call of the puppet quorum function.
type QFInvocation struct {
	Seq, EndSeq uint64
	Step        int
	Replies     map[uint32]int64 // node id -> stamp (0 for Empty replies)
	ReqSame     bool
	ReqIntact   bool
	Overlap     bool
	Quorum      bool
	Level       int
	Ret         proto.Message
	AfterReturn bool // invoked after the call had completed
}

// HandlerRec records one execution of a puppet handler.
type HandlerRec struct {
	SendFailed int // streamed replies whose send returned an error
	Tok       int // -1 unknown
	Srv, Inc  int
	Serial    int
	Stream    *StreamRec
	Method    string
	ReqVal    string
	Plan      *HandlerPlan
	EnterSeq  uint64
	EnterStep int
	// ReleaseSeq: recorded immediately before the handler first calls Release or returns.
	ReleaseSeq uint64
	ReturnSeq  uint64
	Stamps     []int64
	ErrCode    int
	ErrMsg     string
}

type stubResult struct {
	has      bool
	ret      proto.Message
	err      error
	future   func() (proto.Message, error)
	done     func() bool
	corr     *gorums.Correctable
	typedGet func() (proto.Message, int, error)
}

func (r *stubResult) set(m proto.Message, err error) {
	r.has = true
	r.ret = nilIfNilMsg(m)
	r.err = err
}

func nilIfNilMsg(m proto.Message) proto.Message {
	if m == nil {
		return nil
	}
	if !m.ProtoReflect().IsValid() {
		return nil
	}
	return m
}

func nilIfNil[T interface {
	comparable
	proto.Message
}](r T) proto.Message {
	var z T
	if r == z {
		return nil
	}
	return r
}

// stamp layout: tok(22) | srv(4) | inc(8) | serial(20) | k(8)
func mkStamp(tok, srv, inc, serial, k int) int64 {
	return int64(tok&0x3fffff)<<40 | int64(srv&0xf)<<36 | int64(inc&0xff)<<28 | int64(serial&0xfffff)<<8 | int64(k&0xff)
}

type stampParts struct{ Tok, Srv, Inc, Serial, K int }

func parseStamp(s int64) stampParts {
	return stampParts{Tok: int(s >> 40 & 0x3fffff), Srv: int(s >> 36 & 0xf), Inc: int(s >> 28 & 0xff), Serial: int(s >> 8 & 0xfffff), K: int(s & 0xff)}
}

func (p stampParts) String() string {
	return fmt.Sprintf("tok=%d srv=%d inc=%d ser=%d k=%d", p.Tok, p.Srv, p.Inc, p.Serial, p.K)
}
