// Package maporder is the map-iteration-order seam of the generator check (C16): the
// generator package is compiled with every `range` over a map rewritten to range over
// maporder.Keys, so that one seed is one assignment of iteration orders to all map ranges.
package maporder

import (
	"fmt"
	"hash/fnv"
	"sort"
)

var (
	seed    uint64
	calls   map[string]int
	nontriv int    // ranges (with >= 2 keys) whose order differed from sorted order
	sig     uint64 // hash of all permutations chosen
	ranges  int
)

// Reset starts a new generation with the given seed (0 = canonical sorted order).
func Reset(s uint64) {
	seed, calls, nontriv, sig, ranges = s, map[string]int{}, 0, 1469598103934665603, 0
}

// Stats returns the number of map ranges seen, how many were permuted, and the order signature.
func Stats() (int, int, uint64) { return ranges, nontriv, sig }

func mix(x uint64) uint64 {
	x ^= x >> 30
	x *= 0xbf58476d1ce4e5b9
	x ^= x >> 27
	x *= 0x94d049bb133111eb
	x ^= x >> 31
	return x
}

// Yield exists so that the instrumenter's other rewrites (not used in MAPS mode) link.
func Yield(string) {}

// Keys returns the keys of m in an order determined by the seed, the site and the number of
// times the site has been reached.
func Keys[K comparable, V any](site string, m map[K]V) []K {
	keys := make([]K, 0, len(m))
	for k := range m {
		keys = append(keys, k)
	}
	sort.Slice(keys, func(i, j int) bool { return fmt.Sprintf("%v", keys[i]) < fmt.Sprintf("%v", keys[j]) })
	if len(keys) < 2 {
		return keys
	}
	ranges++
	if seed == 0 {
		return keys
	}
	n := calls[site]
	calls[site] = n + 1
	h := fnv.New64a()
	h.Write([]byte(site))
	x := mix(seed ^ h.Sum64() ^ uint64(n)*0x9e3779b97f4a7c15)
	changed := false
	for i := len(keys) - 1; i > 0; i-- {
		x = mix(x)
		j := int(x % uint64(i+1))
		if i != j {
			changed = true
		}
		keys[i], keys[j] = keys[j], keys[i]
	}
	if changed {
		nontriv++
	}
	for _, k := range keys {
		for _, b := range []byte(fmt.Sprintf("%v|", k)) {
			sig = (sig ^ uint64(b)) * 1099511628211
		}
	}
	return keys
}
