// Command gen16 decides the determinism clause of C16: the gorums code generator, compiled
// with its map ranges behind the maporder seam, is run in-process on plugin requests built
// from committed descriptors (and descriptor-level variants); for every seed - one assignment
// of iteration orders to all map ranges - the response must be byte-identical to the response
// obtained with canonical (sorted) order.
package main

import (
	"crypto/sha256"
	"encoding/hex"
	"encoding/json"
	"flag"
	"fmt"
	"math/rand"
	"os"
	"path/filepath"
	"sort"
	"strings"

	"gen16/maporder"

	"github.com/relab/gorums/benchmark"
	"github.com/relab/gorums/cmd/protoc-gen-gorums/dev"
	"github.com/relab/gorums/cmd/protoc-gen-gorums/gengorums"
	"github.com/relab/gorums/tests/config"
	"github.com/relab/gorums/tests/correctable"
	"github.com/relab/gorums/tests/dummy"
	"github.com/relab/gorums/tests/metadata"
	"github.com/relab/gorums/tests/oneway"
	"github.com/relab/gorums/tests/ordering"
	"github.com/relab/gorums/tests/qf"
	"github.com/relab/gorums/tests/tls"
	"github.com/relab/gorums/tests/unresponsive"
	"google.golang.org/protobuf/compiler/protogen"
	"google.golang.org/protobuf/proto"
	"google.golang.org/protobuf/reflect/protodesc"
	"google.golang.org/protobuf/reflect/protoreflect"
	"google.golang.org/protobuf/types/descriptorpb"
	"google.golang.org/protobuf/types/pluginpb"
)

type input struct {
	Name string
	Req  *pluginpb.CodeGeneratorRequest
	Dev  bool
}

// snake turns "QuorumCallAsync" into "quorum_call_async" (a legal, non-CamelCase rpc name).
func snake(n string) string {
	var b strings.Builder
	for i, r := range n {
		if r >= 'A' && r <= 'Z' {
			if i > 0 {
				b.WriteByte('_')
			}
			b.WriteRune(r - 'A' + 'a')
		} else {
			b.WriteRune(r)
		}
	}
	return b.String()
}

var rename map[string]string // method renames applied by request (descriptor-level variant)

func request(fd protoreflect.FileDescriptor, drop map[string]bool) *pluginpb.CodeGeneratorRequest {
	var files []*descriptorpb.FileDescriptorProto
	seen := map[string]bool{}
	var walk func(f protoreflect.FileDescriptor)
	walk = func(f protoreflect.FileDescriptor) {
		if seen[f.Path()] {
			return
		}
		seen[f.Path()] = true
		imps := f.Imports()
		for i := 0; i < imps.Len(); i++ {
			walk(imps.Get(i).FileDescriptor)
		}
		p := protodesc.ToFileDescriptorProto(f)
		if f.Path() == fd.Path() && (len(drop) > 0 || len(rename) > 0) {
			for _, svc := range p.Service {
				var keep []*descriptorpb.MethodDescriptorProto
				for _, m := range svc.Method {
					if !drop[m.GetName()] {
						if nn, ok := rename[m.GetName()]; ok {
							m.Name = proto.String(nn)
						}
						keep = append(keep, m)
					}
				}
				svc.Method = keep
			}
		}
		files = append(files, p)
	}
	walk(fd)
	param := fmt.Sprintf("paths=source_relative,M%s=gen16out/x;x", fd.Path())
	return &pluginpb.CodeGeneratorRequest{
		FileToGenerate:  []string{fd.Path()},
		Parameter:       proto.String(param),
		ProtoFile:       files,
		CompilerVersion: &pluginpb.Version{Major: proto.Int32(4), Minor: proto.Int32(25), Patch: proto.Int32(3)},
	}
}

func methodNames(fd protoreflect.FileDescriptor) []string {
	var out []string
	for i := 0; i < fd.Services().Len(); i++ {
		ms := fd.Services().Get(i).Methods()
		for j := 0; j < ms.Len(); j++ {
			out = append(out, string(ms.Get(j).Name()))
		}
	}
	return out
}

// generate runs the generator in-process and returns the response files in response order.
func generate(in input, seed uint64) (names []string, contents map[string]string, errText string) {
	maporder.Reset(seed)
	defer func() {
		if r := recover(); r != nil {
			errText = fmt.Sprint("panic: ", r)
		}
	}()
	gen, err := protogen.Options{}.New(in.Req)
	if err != nil {
		return nil, nil, err.Error()
	}
	for _, f := range gen.Files {
		if f.Generate {
			if in.Dev {
				gengorums.GenerateDevFiles(gen, f)
			} else {
				gengorums.GenerateFile(gen, f)
			}
		}
	}
	resp := gen.Response()
	if resp.Error != nil {
		return nil, nil, resp.GetError()
	}
	contents = map[string]string{}
	for _, f := range resp.File {
		names = append(names, f.GetName())
		contents[f.GetName()] = f.GetContent()
	}
	return names, contents, ""
}

func hashOf(names []string, contents map[string]string, ordered bool) string {
	h := sha256.New()
	ns := append([]string(nil), names...)
	if !ordered {
		sort.Strings(ns)
	}
	for _, n := range ns {
		h.Write([]byte(n))
		h.Write([]byte{0})
		h.Write([]byte(contents[n]))
		h.Write([]byte{0})
	}
	return hex.EncodeToString(h.Sum(nil))[:16]
}

type violation struct {
	Rule   string
	Key    string
	Input  string
	Seed   uint64
	Detail string
}

func main() {
	seed0 := flag.Uint64("seed0", 1, "first seed")
	nseeds := flag.Int("seeds", 50, "seeds per input")
	variants := flag.Int("variants", 6, "descriptor-level variants of zorums (methods dropped)")
	outDir := flag.String("out", "", "directory for sample outputs (first input, canonical order) and replays")
	onlyInput := flag.String("input", "", "only this input (replay)")
	onlySeed := flag.Uint64("seed", 0, "only this seed (replay)")
	singles := flag.Int("singles", 1, "add the single-method variants of zorums: every n-th method (1 = all, 0 = none)")
	emitDir := flag.String("emit", "", "write the canonical output of every non-dev zorums input to <dir>/v<k>/ (for compile checks)")
	flag.Parse()

	fds := []protoreflect.FileDescriptor{
		dev.File_zorums_proto, config.File_config_config_proto, correctable.File_correctable_correctable_proto, dummy.File_dummy_dummy_proto,
		metadata.File_metadata_metadata_proto, oneway.File_oneway_oneway_proto, ordering.File_ordering_order_proto, qf.File_qf_qf_proto,
		tls.File_tls_tls_proto, unresponsive.File_unresponsive_unresponsive_proto, benchmark.File_benchmark_benchmark_proto,
	}
	var inputs []input
	for _, fd := range fds {
		inputs = append(inputs, input{Name: fd.Path(), Req: request(fd, nil)})
	}
	inputs = append(inputs, input{Name: "zorums.proto#dev", Req: request(dev.File_zorums_proto, nil), Dev: true})
	// descriptor-level variants: random subsets of zorums' methods dropped
	rng := rand.New(rand.NewSource(int64(*seed0)))
	all := methodNames(dev.File_zorums_proto)
	for v := 0; v < *variants; v++ {
		drop := map[string]bool{}
		var dropped []string
		for _, m := range all {
			if rng.Intn(3) == 0 {
				drop[m] = true
				dropped = append(dropped, m)
			}
		}
		// every second variant also spells some rpc names in snake_case / lower case
		rename = map[string]string{}
		var renamed []string
		if v%2 == 1 {
			for _, m := range all {
				if !drop[m] && rng.Intn(3) == 0 {
					if rng.Intn(2) == 0 {
						rename[m] = snake(m)
					} else {
						rename[m] = strings.ToLower(m)
					}
					renamed = append(renamed, rename[m])
				}
			}
		}
		inputs = append(inputs, input{Name: "zorums.proto-without:" + strings.Join(dropped, ",") + "-renamed:" + strings.Join(renamed, ","), Req: request(dev.File_zorums_proto, drop)})
		rename = nil
	}

	// single-method variants: a service that consists of exactly one of zorums' methods (whatever
	// a method needs - imports, helper types, interface entries - must come with that method alone)
	for k, keep := range all {
		if *singles <= 0 || (k+int(*seed0))%*singles != 0 {
			continue
		}
		drop := map[string]bool{}
		for _, m := range all {
			if m != keep {
				drop[m] = true
			}
		}
		inputs = append(inputs, input{Name: "zorums.proto-only:" + keep, Req: request(dev.File_zorums_proto, drop)})
	}

	var viol []violation
	emitted := 0
	evals, nontrivial := 0, 0
	sigs := map[uint64]bool{}
	rangesSeen := 0
	var samples []map[string]any
	for _, in := range inputs {
		if *onlyInput != "" && in.Name != *onlyInput {
			continue
		}
		cn, cc, cerr := generate(in, 0)
		if cerr != "" {
			// a diagnostic is a legal outcome; it must then be the outcome for every order
			cn, cc = nil, map[string]string{"<error>": cerr}
		}
		chash := hashOf(cn, cc, true)
		if *emitDir != "" && !in.Dev && strings.HasPrefix(in.Name, "zorums.proto") && cerr == "" {
			d := filepath.Join(*emitDir, fmt.Sprintf("v%d", emitted))
			emitted++
			_ = os.MkdirAll(d, 0o755)
			for _, n := range cn {
				_ = os.WriteFile(filepath.Join(d, filepath.Base(n)), []byte(cc[n]), 0o644)
			}
			_ = os.WriteFile(filepath.Join(d, "INPUT.txt"), []byte(in.Name), 0o644)
		}
		if *outDir != "" && len(samples) < 2 {
			samples = append(samples, map[string]any{"input": in.Name, "canonical_files": cn, "canonical_hash": chash, "bytes": func() int {
				n := 0
				for _, c := range cc {
					n += len(c)
				}
				return n
			}()})
		}
		for i := 0; i < *nseeds; i++ {
			seed := *seed0*1000003 + uint64(i) + 1
			if *onlySeed != 0 {
				seed = *onlySeed
			}
			n, c, e := generate(in, seed)
			if e != "" {
				n, c = nil, map[string]string{"<error>": e}
			}
			rs, nt, sg := maporder.Stats()
			rangesSeen += rs
			evals++
			if nt > 0 {
				if !sigs[sg] {
					nontrivial++
				}
				sigs[sg] = true
			}
			if h := hashOf(n, c, true); h != chash {
				rule, key, detail := "output-depends-on-map-order", "content", ""
				if hashOf(n, c, false) == hashOf(cn, cc, false) {
					key = "file-order"
					detail = fmt.Sprintf("same files, different order in the response: %v vs %v", n, cn)
				} else {
					for _, name := range n {
						if c[name] != cc[name] {
							detail = fmt.Sprintf("file %s differs (%d vs %d bytes): %s", name, len(c[name]), len(cc[name]), firstDiff(cc[name], c[name]))
							break
						}
					}
					if detail == "" {
						detail = fmt.Sprintf("file sets differ: %v vs %v", n, cn)
					}
				}
				if in.Dev {
					key = "dev:" + key
				}
				viol = append(viol, violation{Rule: rule, Key: key, Input: in.Name, Seed: seed, Detail: detail})
				break
			}
			if *onlySeed != 0 {
				break
			}
		}
	}
	out := map[string]any{"evaluations": evals, "distinct_nontrivial": nontrivial, "inputs": len(inputs), "map_ranges_total": rangesSeen, "violations": viol, "samples": samples}
	b, _ := json.Marshal(out)
	fmt.Println(string(b))
	if *outDir != "" {
		_ = os.MkdirAll(*outDir, 0o755)
		_ = os.WriteFile(filepath.Join(*outDir, "gen16.json"), b, 0o644)
	}
	if len(viol) > 0 {
		os.Exit(1)
	}
}

func firstDiff(a, b string) string {
	la, lb := strings.Split(a, "\n"), strings.Split(b, "\n")
	for i := 0; i < len(la) && i < len(lb); i++ {
		if la[i] != lb[i] {
			return fmt.Sprintf("line %d: %q vs %q", i+1, la[i], lb[i])
		}
	}
	return "length"
}
