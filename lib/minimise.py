"""Replay-file minimisation (program and schedule); see DESIGN.md 4.7."""
def minimise(binary, path, budget_s=60):
    return False
