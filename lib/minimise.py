"""Replay-file minimisation (program and schedule); see DESIGN.md 4.7.

The work is done in-process by the simulator binary (TestMinimise: lenient replay of candidate
programs / traces, accepted only when the same violation class shows up; the result is verified
by two strict replays). This wrapper runs it, keeps the original next to the result and returns
a short report. Any failure leaves the unminimised replay file in place."""
import json
import os
import subprocess


def minimise(binary, path, budget_s=60, env=None):
    e = dict(env or os.environ)
    out = path + '.min'
    e.update(SIM_REPLAY=path, SIM_MIN_OUT=out, SIM_MIN_BUDGET_S=str(budget_s))
    try:
        p = subprocess.run([binary, '-test.run', '^TestMinimise$', '-test.timeout', '30m', '-test.cpu', '1'], env=e, stdout=subprocess.PIPE, stderr=subprocess.STDOUT, text=True, timeout=budget_s + 200)
    except subprocess.TimeoutExpired:
        return dict(ok=False, error='timeout')
    rep = dict(ok=False)
    for ln in p.stdout.splitlines():
        if ln.startswith('MINIMISE '):
            parts = ln.split(' ', 2)
            rep = json.loads(parts[2])
            rep['ok'] = parts[1] == 'true'
    if rep.get('ok') and os.path.exists(out):
        orig = json.load(open(path))
        new = json.load(open(out))
        new['Reproducible'] = True
        new['Unminimised'] = dict(Program=orig['Program'], Trace=orig['Trace'], LogHash=orig['LogHash'], Detail=orig['Detail'])
        json.dump(new, open(path, 'w'), indent=1)
    if os.path.exists(out):
        os.remove(out)
    return rep
