#!/bin/bash
# dev helper: run every thorough check registered in MANIFEST.json, one after the other; log to .build/thorough.log
cd /verif
log=.build/thorough.log
: > $log
for id in ${@:-$(jq -r ".checks[].property_id" MANIFEST.json)}; do
  s=$(date +%s)
  out=$(./check $id thorough 2>&1); rc=$?
  echo "$id rc=$rc $(( $(date +%s)-s ))s $(echo "$out" | grep -c '^VIOLATION') violations $(echo "$out" | grep -c '^KNOWN-FINDING') known" >> $log
  echo "$out" | grep '^VIOLATION\|^  rule=\|^KNOWN-FINDING\|BUILD-ERROR\|WATCHDOG\|PROBLEM\|runs,' | cut -c1-400 >> $log
  cp evidence/$id.json .build/thorough-evidence-$id.json 2>/dev/null
done
echo ALLDONE >> $log
