"""Per-property check settings: which simulator profile(s) to run, budgets, level."""

def P(quick_runs, quick_s, thorough_runs, thorough_s, **kw):
    d = dict(quick=dict(runs=quick_runs, budget_s=quick_s), thorough=dict(runs=thorough_runs, budget_s=thorough_s))
    d.update(kw)
    return d

PROFILES = {
    'C01': P(6000, 60, 300000, 1500),
    'C02': P(6000, 60, 300000, 1500),
    'C05': P(6000, 60, 300000, 1500),
    'C06': P(6000, 60, 300000, 1500),
}
