"""Per-property check settings: which simulator profile(s) to run, budgets, level."""

def P(quick_runs, quick_s, thorough_runs, thorough_s, **kw):
    d = dict(quick=dict(runs=quick_runs, budget_s=quick_s), thorough=dict(runs=thorough_runs, budget_s=thorough_s))
    d.update(kw)
    return d

PROFILES = {
    'C01': P(6000, 60, 250000, 600),
    'C02': P(6000, 60, 250000, 600),
    'C05': P(6000, 60, 250000, 600),
    'C06': P(6000, 60, 250000, 600),
}
PROFILES.update({
    'C03': P(6000, 60, 250000, 600),
    'C04': P(6000, 60, 250000, 600),
    'C07': P(8000, 60, 250000, 600, level='exploration'),
    'C08': P(4000, 90, 200000, 600),
    'C09': P(5000, 60, 250000, 600),
    'C10': P(3000, 90, 150000, 600),
})
PROFILES.update({
    'C11': P(8000, 60, 300000, 600),
    'C12': P(5000, 60, 250000, 600),
    'C18': P(5000, 60, 200000, 600, required_probes=['routing-entries-visible-before-settle']),
})

# site-triggered fault enumeration: base programs, cap on points per base program, wall budget
_ENUM = dict(quick=dict(bases=32, max_points=60, budget_s=40), thorough=dict(bases=4000, max_points=400, budget_s=600))
for _p in ('C02', 'C07', 'C08', 'C10', 'C12'):
    PROFILES[_p]['enum'] = _ENUM

import simcheck as _sc
PROFILES.update({
    'C13': P(6000, 60, 250000, 600),
    'C15': P(240, 120, 40000, 1200, custom=lambda prop, tier, seed: _sc.run_race_check(prop, tier, seed)),
})

PROFILES.update({
    'C16': dict(quick=dict(runs=60, budget_s=120, variants=4), thorough=dict(runs=1500, budget_s=1200, variants=40), custom=lambda prop, tier, seed: _sc.run_gen_check(prop, tier, seed)),
})
