#!/usr/bin/env python3
"""Dev tool for the seeded changes (mutants) kept under /verif/seeded/<id>/.

  seeded.py import <srcdir> <rebased-dir>      copy sub-agent artefacts (patchK.diff, demoK_test.go, metaK.json, READMEK.md)
  seeded.py confirm <id>|all                   scratch worktree of /repo HEAD: patch applies and builds, suite passes with it,
                                               demonstration passes without it and fails with it -> meta.json["confirmed"]
  seeded.py detect <id>|all [tier]             git -C /repo apply; ./check <prop> quick; git -C /repo checkout -- .  -> meta.json["detection"]
  seeded.py table                              markdown table for DESIGN.md

Nothing here is used by a registered check.
"""
import glob
import json
import os
import shutil
import subprocess
import sys
import tempfile
import time

ROOT = '/verif/seeded'
ENV = dict(os.environ, GOFLAGS='-mod=mod', GOPROXY='off', GOSUMDB='off')


def sh(cmd, cwd=None, timeout=1800):
    try:
        p = subprocess.run(cmd, shell=True, cwd=cwd, env=ENV, stdout=subprocess.PIPE, stderr=subprocess.STDOUT, timeout=timeout, text=True)
        return p.returncode, p.stdout
    except subprocess.TimeoutExpired as e:
        return 124, (e.stdout or '') + '\nTIMEOUT'


def ids(arg):
    if arg == 'all':
        return sorted(os.path.basename(d) for d in glob.glob(ROOT + '/C*'))
    return [arg]


def head():
    return subprocess.check_output(['git', '-C', '/repo', 'log', '--format=%h', '-1'], text=True).strip()


def do_import(src, rebased, offset=0):
    for d in sorted(glob.glob(src + '/C??')):
        prop = os.path.basename(d)
        for k in (1, 2):
            if not os.path.exists('%s/patch%d.diff' % (d, k)):
                continue
            dst = '%s/%s-%d' % (ROOT, prop, k + offset)
            os.makedirs(dst, exist_ok=True)
            rb = '%s/%s.p%d.diff' % (rebased, prop, k)
            shutil.copy(rb if os.path.exists(rb) else '%s/patch%d.diff' % (d, k), dst + '/patch.diff')
            shutil.copy('%s/patch%d.diff' % (d, k), dst + '/patch.orig.diff')
            for cand in ('demo%d_test.go' % k, 'demo%d.go' % k):
                if os.path.exists(d + '/' + cand):
                    shutil.copy(d + '/' + cand, dst + '/demo_test.go')
            for extra in glob.glob('%s/demo%d?_test.go' % (d, k)):
                shutil.copy(extra, dst + '/' + os.path.basename(extra))
            if os.path.exists('%s/README%d.md' % (d, k)):
                shutil.copy('%s/README%d.md' % (d, k), dst + '/README.md')
            meta = json.load(open('%s/meta%d.json' % (d, k)))
            meta['id'] = '%s-%d' % (prop, k + offset)
            meta['origin'] = 'fresh sub-agent given only the property text and a scratch worktree; patch.orig.diff is its change against the tree of that time, patch.diff the same change carried over to the current /repo HEAD'
            json.dump(meta, open(dst + '/meta.json', 'w'), indent=1)
            if open(dst + '/patch.diff').read() == open(dst + '/patch.orig.diff').read():
                os.remove(dst + '/patch.orig.diff')
            print('imported', dst)


def confirm(i):
    d = '%s/%s' % (ROOT, i)
    meta = json.load(open(d + '/meta.json'))
    wt = tempfile.mkdtemp(prefix='confirm.', dir='/tmp')
    os.rmdir(wt)
    res = {'repo_head': head(), 'when': time.strftime('%Y-%m-%dT%H:%M:%SZ', time.gmtime())}
    rc, out = sh('git -C /repo worktree add -q --detach %s HEAD' % wt)
    if rc != 0:
        print(out)
        return
    try:
        rc, _ = sh('git apply --check %s/patch.diff' % d, cwd=wt)
        res['applies'] = rc == 0
        if rc != 0:
            return
        demo_path = os.path.join(wt, meta['demo_path'])
        os.makedirs(os.path.dirname(demo_path), exist_ok=True)
        shutil.copy(d + '/demo_test.go', demo_path)
        rc, out = sh(meta['demo_cmd'], cwd=wt, timeout=900)
        res['demo_without_patch'] = 'pass' if rc == 0 else 'FAIL rc=%d: %s' % (rc, out[-400:])
        sh('git apply %s/patch.diff' % d, cwd=wt)
        rc, out = sh('go build ./... && go vet . 2>&1 | head -5; go build ./...', cwd=wt)
        res['builds'] = rc == 0
        rc, out = sh(meta['demo_cmd'], cwd=wt, timeout=900)
        res['demo_with_patch'] = 'fail' if rc != 0 else 'PASS (unexpected)'
        res['demo_with_patch_output_tail'] = out[-600:]
        os.remove(demo_path)
        rc, out = sh('timeout 1200 go test -vet=off -count=1 . ./tests/... ./internal/leakcheck/... ./cmd/... 2>&1 | grep -v "no test files"', cwd=wt, timeout=1300)
        fails = [l for l in out.split('\n') if l.startswith('FAIL') or l.startswith('--- FAIL')]
        # tests that need protoc fail on the unchanged tree too and are not part of the pinned suite
        fails = [l for l in fails if 'testprotos' not in l and l.strip() != 'FAIL']
        res['suite_with_patch'] = 'pass' if not fails else 'FAIL: ' + '; '.join(fails)[:400]
        res['commands'] = ['git worktree add --detach <scratch> HEAD', meta['demo_cmd'] + '   (without patch)', 'git apply patch.diff; go build ./...', meta['demo_cmd'] + '   (with patch)',
                           'go test -vet=off -count=1 . ./tests/... ./internal/leakcheck/... ./cmd/...   (with patch, demonstration removed)']
    finally:
        sh('git -C /repo worktree remove --force %s' % wt)
        shutil.rmtree(wt, ignore_errors=True)
        ok = res.get('applies') and res.get('builds') and res.get('demo_without_patch') == 'pass' and res.get('demo_with_patch') == 'fail' and res.get('suite_with_patch') == 'pass'
        res['ok'] = bool(ok)
        meta = json.load(open(d + '/meta.json'))
        meta['confirmed'] = res
        json.dump(meta, open(d + '/meta.json', 'w'), indent=1)
        print(i, 'CONFIRMED' if ok else 'NOT CONFIRMED', {k: v for k, v in res.items() if k in ('applies', 'builds', 'demo_without_patch', 'demo_with_patch', 'suite_with_patch')})


def detect(i, tier='quick', props=None):
    d = '%s/%s' % (ROOT, i)
    meta = json.load(open(d + '/meta.json'))
    rc, out = sh('git -C /repo status --porcelain')
    if out.strip():
        print('REPO DIRTY')
        sys.exit(2)
    rc, out = sh('git -C /repo apply %s/patch.diff' % d)
    if rc != 0:
        print(i, 'PATCH DOES NOT APPLY', out)
        return
    det = meta.setdefault('detection', {})
    try:
        for p in props or [meta['property']]:
            t0 = time.time()
            rc, out = sh('./check %s %s' % (p, tier), cwd='/verif', timeout=7200)
            vio = [l for l in out.split('\n') if l.startswith('VIOLATION')]
            rules = sorted(set(l.strip()[:200] for l in out.split('\n') if l.startswith('  rule=') or l.startswith('  C')))
            det['%s %s' % (p, tier)] = {'exit': rc, 'violations': len(vio), 'first': (rules[:3] if rules else out[-300:]), 'seconds': int(time.time() - t0), 'repo_head': head(),
                                        'command': 'git -C /repo apply seeded/%s/patch.diff; ./check %s %s; git -C /repo checkout -- .' % (i, p, tier)}
            print(i, p, tier, 'exit', rc, 'violations', len(vio), int(time.time() - t0), 's')
            for r in rules[:3]:
                print('    ', r[:240])
            if rc not in (0, 1):
                print(out[-1500:])
    finally:
        sh('git -C /repo checkout -- . ; git -C /repo clean -fdq')
        # evidence and replays written while a seeded change was applied do not describe /repo
        sh('git checkout -- evidence; rm -f replays/*.json', cwd='/verif')
        fresh = json.load(open(d + '/meta.json'))
        fresh.setdefault('detection', {}).update(det)
        json.dump(fresh, open(d + '/meta.json', 'w'), indent=1)


def detect_scratch(i, tier='quick', props=None):
    """Like detect, but against a scratch worktree of /repo HEAD (VERIF_REPO) with scratch evidence and
    replay directories: usable while something else is running against /repo. The result is recorded
    under detection_scratch; the recorded detection is still made with detect (git -C /repo apply)."""
    d = '%s/%s' % (ROOT, i)
    meta = json.load(open(d + '/meta.json'))
    wt = tempfile.mkdtemp(prefix='det.', dir='/tmp')
    os.rmdir(wt)
    rc, out = sh('git -C /repo worktree add -q --detach %s HEAD && git -C %s apply %s/patch.diff' % (wt, wt, d))
    if rc != 0:
        print(i, 'cannot prepare scratch worktree', out)
        return
    det = {}
    try:
        for p in props or [meta['property']]:
            t0 = time.time()
            rc, out = sh('VERIF_REPO=%s VERIF_EVIDENCE_DIR=%s/.ev VERIF_REPLAY_DIR=%s/.rp ./check %s %s' % (wt, wt, wt, p, tier), cwd='/verif', timeout=7200)
            vio = [l for l in out.split('\n') if l.startswith('VIOLATION')]
            rules = sorted(set(l.strip()[:200] for l in out.split('\n') if l.startswith('  rule=')))
            det['%s %s' % (p, tier)] = {'exit': rc, 'violations': len(vio), 'first': (rules[:3] if rules else out[-300:]), 'seconds': int(time.time() - t0)}
            print(i, p, tier, 'exit', rc, 'violations', len(vio), int(time.time() - t0), 's (scratch)')
            for r in rules[:3]:
                print('    ', r[:240])
            if rc not in (0, 1):
                print(out[-1500:])
    finally:
        sh('git -C /repo worktree remove --force %s' % wt)
        shutil.rmtree(wt, ignore_errors=True)
        fresh = json.load(open(d + '/meta.json'))
        fresh.setdefault('detection_scratch', {}).update(det)
        json.dump(fresh, open(d + '/meta.json', 'w'), indent=1)


def table():
    print('| id | property | change | needs | confirmed | detected by (quick) |')
    print('|---|---|---|---|---|---|')
    for i in ids('all'):
        m = json.load(open('%s/%s/meta.json' % (ROOT, i)))
        det = '; '.join('%s: %s' % (k, 'caught (%d s)' % v['seconds'] if v['exit'] == 1 else 'MISSED' if v['exit'] == 0 else 'exit %d' % v['exit']) for k, v in sorted(m.get('detection', {}).items()))
        print('| %s | %s | %s | %s | %s | %s |' % (i, m['property'], m['summary'][:160].replace('|', '/'), m['needs_to_manifest'][:120].replace('|', '/'), 'yes' if m.get('confirmed', {}).get('ok') else 'no', det))


if __name__ == '__main__':
    cmd = sys.argv[1]
    if cmd == 'import':
        do_import(sys.argv[2], sys.argv[3], int(sys.argv[4]) if len(sys.argv) > 4 else 0)
    elif cmd == 'confirm':
        for i in ids(sys.argv[2]):
            confirm(i)
    elif cmd == 'detect':
        for i in ids(sys.argv[2]):
            detect(i, sys.argv[3] if len(sys.argv) > 3 else 'quick', sys.argv[4:] or None)
    elif cmd == 'detect-scratch':
        for i in ids(sys.argv[2]):
            detect_scratch(i, sys.argv[3] if len(sys.argv) > 3 else 'quick', sys.argv[4:] or None)
    elif cmd == 'table':
        table()
