#!/bin/bash
# dev helper: run every quick check registered in MANIFEST.json, one after the other
cd /verif
for id in $(jq -r ".checks[].property_id" MANIFEST.json); do
  s=$(date +%s)
  out=$(./check $id quick 2>&1); rc=$?
  echo "$id rc=$rc $(( $(date +%s)-s ))s $(echo "$out" | grep -c '^VIOLATION') violations $(echo "$out" | grep -c '^KNOWN-FINDING') known"
  echo "$out" | grep '^VIOLATION\|^KNOWN-FINDING\|BUILD-ERROR\|WATCHDOG\|PROBLEM' | cut -c1-300
done
