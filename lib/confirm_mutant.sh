#!/bin/bash
# usage: confirm_mutant.sh <dir with patchK.diff demoK_test.go metaK.json> <K> <outfile>
# Confirms in a scratch worktree of /repo HEAD: patch applies, builds, suite passes with it,
# demo fails with it and passes without it.
d=$1; k=$2; out=$3
export GOFLAGS=-mod=mod GOPROXY=off GOSUMDB=off
wt=$(mktemp -d /tmp/confirm.XXXXXX)
git -C /repo worktree add -q --detach $wt HEAD || exit 2
cleanup() { git -C /repo worktree remove --force $wt; rm -rf $wt; }
trap cleanup EXIT
cd $wt
res() { echo "$1" >> $out; }
echo "---- $d patch$k" >> $out
if ! git apply --check $d/patch$k.diff 2>/dev/null; then res "APPLY: no"; exit 0; fi
res "APPLY: yes"
demo_path=$(python3 -c "import json; print(json.load(open('$d/meta$k.json'))['demo_path'])")
demo_cmd=$(python3 -c "import json; print(json.load(open('$d/meta$k.json'))['demo_cmd'])")
demo_src=$(ls $d/demo${k}_test.go $d/demo${k}.go 2>/dev/null | head -1)
mkdir -p $(dirname $demo_path); cp $demo_src $demo_path
# without patch: demo must pass
if (eval "timeout 600 $demo_cmd") > /tmp/confirm_demo_wo.log 2>&1; then res "DEMO-WITHOUT: pass"; else res "DEMO-WITHOUT: FAIL (unexpected)"; fi
git apply $d/patch$k.diff
if go build ./... > /tmp/confirm_build.log 2>&1; then res "BUILD: ok"; else res "BUILD: FAIL"; exit 0; fi
if (eval "timeout 600 $demo_cmd") > /tmp/confirm_demo_w.log 2>&1; then res "DEMO-WITH: pass (unexpected)"; else res "DEMO-WITH: fail (expected)"; fi
rm -f $demo_path
if timeout 900 go test -vet=off -count=1 . ./tests/... > /tmp/confirm_suite.log 2>&1; then res "SUITE-WITH: pass"; else res "SUITE-WITH: FAIL"; tail -5 /tmp/confirm_suite.log >> $out; fi
