"""Orchestration of the gorums simulator: build from the working tree, run seeded
batches in parallel worker processes, triage violations (known findings,
confirmation by replay), write evidence."""
import hashlib, json, os, re, shutil, subprocess, sys, time, glob, tempfile, signal

VERIF = os.path.dirname(os.path.dirname(os.path.abspath(__file__)))
# dev only: scratch output directories, so that a run against a scratch copy of the repository (VERIF_REPO) leaves /verif alone
EVIDENCE_DIR = os.environ.get('VERIF_EVIDENCE_DIR', os.path.join(VERIF, 'evidence'))
REPLAY_DIR = os.environ.get('VERIF_REPLAY_DIR', os.path.join(VERIF, 'replays'))
REPO = os.environ.get('VERIF_REPO', '/repo')
SIM = os.path.join(VERIF, 'sim')
BUILD_ROOT = os.path.join(VERIF, '.build')
GO_NEW = 'go1.26.8'
GO_OLD = 'go'
WORKERS = int(os.environ.get('VERIF_WORKERS', '16'))

import profiles  # per-property settings


def goenv():
    e = dict(os.environ)
    e.update(GOFLAGS='-mod=mod', GOPROXY='off', GOSUMDB='off', GOTOOLCHAIN='local', CGO_ENABLED=e.get('CGO_ENABLED', '1'))
    return e


def die(code, msg):
    print(msg, flush=True)
    sys.exit(code)


def sh(cmd, cwd=None, env=None, timeout=1800, ok_codes=(0,)):
    p = subprocess.run(cmd, cwd=cwd, env=env or goenv(), stdout=subprocess.PIPE, stderr=subprocess.STDOUT, text=True, timeout=timeout)
    return p.returncode, p.stdout


# ----------------------------------------------------------------- build

def input_files():
    files = []
    for pat in ['*.go', 'go.mod', 'go.sum', 'ordering/*.go', 'internal/**/*.go', 'cmd/protoc-gen-gorums/**/*.go']:
        files += glob.glob(os.path.join(REPO, pat), recursive=True)
    files = [f for f in files if not f.endswith('_test.go')]
    files += glob.glob(os.path.join(REPO, 'tests/*/*.pb.go')) + glob.glob(os.path.join(REPO, 'benchmark/*.pb.go'))
    sims = []
    for base in (SIM, os.path.join(VERIF, 'gen16')):
        for root, dirs, fs in os.walk(base):
            dirs[:] = [d for d in dirs if d not in ('zsvc',)]
            for f in fs:
                if f.endswith(('.go', '.mod', '.sum', '.py')):
                    sims.append(os.path.join(root, f))
    return sorted(set(files)), sorted(sims)


def tree_hash():
    h = hashlib.sha256()
    repo_files, sim_files = input_files()
    for f in repo_files:
        h.update(os.path.relpath(f, REPO).encode() + b'\0')
        h.update(open(f, 'rb').read())
        h.update(b'\0')
    hr = h.hexdigest()[:16]
    for f in sim_files:
        h.update(os.path.relpath(f, VERIF).encode() + b'\0')
        h.update(open(f, 'rb').read())
        h.update(b'\0')
    h.update(REPO.encode())
    h.update(open(os.path.abspath(__file__), 'rb').read())
    return h.hexdigest()[:16], hr


def prune_builds(keep):
    if not os.path.isdir(BUILD_ROOT):
        return
    ds = [os.path.join(BUILD_ROOT, d) for d in os.listdir(BUILD_ROOT)]
    ds = [d for d in ds if os.path.isdir(d) and os.path.basename(d) != keep and not os.path.basename(d).startswith('grpc-')]
    ds.sort(key=lambda d: os.path.getmtime(d), reverse=True)
    # keep the newest few, and never remove a directory that was used in the last hours: another
    # check (of another tree, e.g. a scratch copy) may be running out of it right now
    now = time.time()
    for d in ds[3:]:
        if now - os.path.getmtime(d) > 4 * 3600:
            shutil.rmtree(d, ignore_errors=True)


class BuildError(Exception):
    pass


def grpc_copy(env):
    """A private copy of the grpc module whose jitter PRNG is deterministic (files under
    GOMODCACHE cannot be overlaid). Shared by all build directories."""
    dst = os.path.join(BUILD_ROOT, 'grpc-v1.62.1-sim')
    marker = os.path.join(dst, '.sim-ok')
    want = open(os.path.join(SIM, 'overlays/grpcrand_go1.21.go')).read() + '// v2 transport-read tie-break\n// v3 clientStream.mu waits on the fake clock\n'
    if os.path.exists(marker) and open(marker).read() == want:
        return dst
    rc, moddir = sh([GO_NEW, 'list', '-m', '-f', '{{.Dir}}', 'google.golang.org/grpc'], cwd=SIM, env=env)
    if rc != 0 or not moddir.strip():
        raise BuildError('cannot locate the grpc module:\n' + moddir)
    tmp = dst + '.tmp%d' % os.getpid()
    shutil.rmtree(tmp, ignore_errors=True)
    shutil.copytree(moddir.strip(), tmp, ignore=shutil.ignore_patterns('examples', 'interop', 'benchmark', 'test', 'testdata', 'Documentation', 'xds', 'stress', 'gcp', '*_test.go'))
    for root, dirs, fs in os.walk(tmp):
        os.chmod(root, 0o755)
        for f in fs:
            os.chmod(os.path.join(root, f), 0o644)
    open(os.path.join(tmp, 'internal/grpcrand/grpcrand_go1.21.go'), 'w').write(want)
    # The server-side stream reader selects between "stream context done" and "data
    # available"; when both are ready Go picks at random, which cannot be seeded. Resolve
    # the tie deterministically (pseudo-randomly from the fake clock and a per-reader
    # counter); both outcomes remain reachable, each is one the original could produce.
    tp = os.path.join(tmp, 'internal/transport/transport.go')
    src = open(tp).read()
    a = """func (r *recvBufferReader) read(p []byte) (n int, err error) {
	select {"""
    b = """func (r *recvBufferReader) read(p []byte) (n int, err error) {
	r.simN++
	if x := uint64(time.Now().UnixNano()/1000) + r.simN*0x9e3779b97f4a7c15; (x^(x>>29)^(x>>17))&1 == 0 {
		select {
		case m := <-r.recv.get():
			return r.readAdditional(m, p)
		default:
		}
	} else {
		select {
		case <-r.ctxDone:
			return 0, ContextErr(r.ctx.Err())
		default:
		}
	}
	select {"""
    c = """	freeBuffer  func(*bytes.Buffer)
}"""
    d = """	freeBuffer  func(*bytes.Buffer)
	simN        uint64
}"""
    if src.count(a) != 1 or src.count(c) != 1:
        raise BuildError('grpc transport.go does not have the expected shape; cannot make it deterministic')
    src = src.replace(a, b).replace(c, d)
    if '"time"' not in src:
        raise BuildError('grpc transport.go: time not imported')
    open(tp, 'w').write(src)
    # clientStream.mu is held by RecvMsg's transparent retry while it waits (durably) for a
    # transport, and SendMsg then blocks in a real sync.Mutex.Lock - which testing/synctest does
    # not regard as durably blocked, so the bubble would never become quiescent again. Make this
    # one mutex wait by polling on the (fake) clock; lock semantics are unchanged.
    os.makedirs(os.path.join(tmp, 'internal/simsync'), exist_ok=True)
    open(os.path.join(tmp, 'internal/simsync/simsync.go'), 'w').write("""// Package simsync: a mutex whose waiters sleep on the clock instead of parking in the runtime.
package simsync

import (
	"sync"
	"time"
)

type Mutex struct{ m sync.Mutex }

func (m *Mutex) Lock() {
	d := time.Microsecond
	for !m.m.TryLock() {
		time.Sleep(d)
		if d < 10*time.Millisecond {
			d *= 2
		}
	}
}

func (m *Mutex) Unlock() { m.m.Unlock() }
""")
    sp = os.path.join(tmp, 'stream.go')
    src = open(sp).read()
    a = "\tmu                      sync.Mutex\n\tfirstAttempt            bool"
    if src.count(a) != 1 or '"google.golang.org/grpc/internal/grpcutil"' not in src:
        raise BuildError('grpc stream.go does not have the expected shape')
    src = src.replace(a, "\tmu                      simsync.Mutex\n\tfirstAttempt            bool")
    src = src.replace('"google.golang.org/grpc/internal/grpcutil"', '"google.golang.org/grpc/internal/grpcutil"\n\t"google.golang.org/grpc/internal/simsync"', 1)
    open(sp, 'w').write(src)
    open(os.path.join(tmp, '.sim-ok'), 'w').write(want)
    shutil.rmtree(dst, ignore_errors=True)
    os.replace(tmp, dst)
    return dst


def build(mode='L2', quiet=False):
    """Returns (builddir, binary). Builds what is missing for the current tree."""
    th, repo_hash = tree_hash()
    bdir = os.path.join(BUILD_ROOT, th)
    os.makedirs(bdir, exist_ok=True)
    os.utime(bdir, None)
    binary = os.path.join(bdir, 'sim.' + mode)
    if os.path.exists(binary) and os.path.exists(os.path.join(bdir, 'OK.' + mode)):
        return bdir, binary, th
    t0 = time.time()
    log = lambda m: (None if quiet else print('[build] ' + m, flush=True))
    env = goenv()
    # 1. tools (instrumenter, stub generator) - built from /verif/sim, uninstrumented
    tools = os.path.join(bdir, 'tools')
    os.makedirs(tools, exist_ok=True)
    simcopy = os.path.join(bdir, 'sim')
    if not os.path.exists(os.path.join(bdir, 'OK.common')):
        if os.path.exists(simcopy):
            shutil.rmtree(simcopy)
        shutil.copytree(SIM, simcopy, ignore=shutil.ignore_patterns('zsvc', '*.test'))
        gm = open(os.path.join(simcopy, 'go.mod')).read()
        gm = re.sub(r'replace github.com/relab/gorums => .*', 'replace github.com/relab/gorums => ' + REPO, gm)
        open(os.path.join(simcopy, 'go.mod'), 'w').write(gm)
        gm += '\nreplace google.golang.org/grpc => %s\n' % grpc_copy(env)
        open(os.path.join(simcopy, 'go.mod'), 'w').write(gm)
        shutil.copy(os.path.join(REPO, 'go.sum'), os.path.join(simcopy, 'go.sum'))
        log('building protoc-gen-gorums from the working tree')
        rc, out = sh([GO_OLD, 'build', '-o', os.path.join(tools, 'protoc-gen-gorums'), './cmd/protoc-gen-gorums'], cwd=REPO, env=env)
        if rc != 0:
            raise BuildError('building the plugin failed:\n' + out)
        rc, out = sh([GO_NEW, 'build', '-o', os.path.join(tools, 'instrument'), './cmd/instrument'], cwd=simcopy, env=env)
        if rc != 0:
            raise BuildError('building the instrumenter failed:\n' + out)
        rc, out = sh([GO_NEW, 'build', '-o', os.path.join(tools, 'genzsvc'), './cmd/genzsvc'], cwd=simcopy, env=env)
        if rc != 0:
            raise BuildError('building genzsvc failed:\n' + out)
        log('regenerating ZorumsService stubs with the working-tree plugin')
        rc, out = sh([os.path.join(tools, 'genzsvc'), '-plugin', os.path.join(tools, 'protoc-gen-gorums'), '-out', os.path.join(simcopy, 'zsvc'),
                      '-pb', os.path.join(REPO, 'cmd/protoc-gen-gorums/dev/zorums.pb.go')], cwd=simcopy, env=env)
        if rc != 0:
            raise BuildError('stub generation failed (rc=%d):\n%s' % (rc, out))
        open(os.path.join(bdir, 'OK.common'), 'w').write('ok')
    # 2. instrument
    inst = os.path.join(bdir, 'inst.' + mode)
    if os.path.exists(inst):
        shutil.rmtree(inst)
    os.makedirs(inst)
    overlay = os.path.join(bdir, 'overlay.%s.json' % mode)
    if os.path.exists(overlay):
        os.remove(overlay)
    imode = 'L1' if mode.startswith('L1') else 'L2'
    rc, out = sh([os.path.join(tools, 'instrument'), '-src', REPO, '-out', inst, '-overlay', overlay, '-go', GO_NEW, '-mode', imode], cwd=simcopy, env=env)
    if rc != 0:
        raise BuildError('instrumenting the runtime package failed:\n' + out)
    # 3. compile the harness test binary
    log('compiling simulator (%s)' % mode)
    cmd = [GO_NEW, 'test', '-c', '-overlay', overlay, '-o', binary]
    if mode.endswith('race'):
        cmd.append('-race')
    cmd.append('./world/')
    rc, out = sh(cmd, cwd=simcopy, env=env, timeout=3600)
    if rc != 0:
        raise BuildError('compiling the simulator failed:\n' + out)
    open(os.path.join(bdir, 'OK.' + mode), 'w').write('ok')
    log('done in %.1fs -> %s' % (time.time() - t0, bdir))
    prune_builds(th)
    return bdir, binary, th


# ----------------------------------------------------------------- running

def run_workers(binary, profile, tier, seed0, nruns, budget_s, mode, workers=None, extra_env=None, sample_every=0, test='TestSim'):
    """Runs nruns seeds (seed0, seed0+1, ...) split over worker processes.
    Returns (lines, problems)."""
    workers = workers or WORKERS
    workers = max(1, min(workers, nruns))
    tmp = tempfile.mkdtemp(prefix='run-', dir=os.path.dirname(binary))
    procs = []
    per = (nruns + workers - 1) // workers
    for k in range(workers):
        env = goenv()
        env.update(SIM_PROFILE=profile, SIM_TIER=tier, SIM_SEED0=str(seed0 + k), SIM_STRIDE=str(workers), SIM_COUNT=str(per),
                   SIM_OUT=os.path.join(tmp, 'w%d.jsonl' % k), SIM_BUDGET_S=str(budget_s), SIM_MODE=mode, GOMAXPROCS=env.get('SIM_GOMAXPROCS', '2'))
        if sample_every:
            env['SIM_SAMPLE_EVERY'] = str(sample_every)
        if mode.endswith('race'):
            env['GORACE'] = 'halt_on_error=0 log_path=%s' % os.path.join(tmp, 'race%d' % k)
        if extra_env:
            env.update(extra_env)
        lf = open(os.path.join(tmp, 'w%d.log' % k), 'w')
        p = subprocess.Popen([binary, '-test.run', '^%s$' % test, '-test.timeout', '6h', '-test.cpu', '1'], env=env, stdout=lf, stderr=subprocess.STDOUT, cwd=tmp)
        procs.append((p, lf, k))
    problems = []
    deadline = time.time() + budget_s + 180
    for p, lf, k in procs:
        try:
            p.wait(timeout=max(1, deadline - time.time()))
        except subprocess.TimeoutExpired:
            p.kill()
            p.wait()
            problems.append('worker %d: watchdog timeout (killed)' % k)
        lf.close()
        if p.returncode not in (0, None) and not any(s.startswith('worker %d:' % k) for s in problems):
            tail = open(os.path.join(tmp, 'w%d.log' % k)).read()[-3000:]
            problems.append('worker %d: exit status %s\n%s' % (k, p.returncode, tail))
    lines = []
    for k in range(workers):
        f = os.path.join(tmp, 'w%d.jsonl' % k)
        if os.path.exists(f):
            for ln in open(f):
                ln = ln.strip()
                if ln:
                    try:
                        lines.append(json.loads(ln))
                    except Exception:
                        problems.append('worker %d: bad result line' % k)
    return lines, problems, tmp


def replay(binary, path, verbose=False, timeout=300):
    env = goenv()
    env['SIM_REPLAY'] = path
    if verbose:
        env['SIM_VERBOSE'] = '1'
    try:
        p = subprocess.run([binary, '-test.run', '^TestReplay$', '-test.timeout', '10m', '-test.cpu', '1'], env=env, stdout=subprocess.PIPE, stderr=subprocess.STDOUT, text=True, timeout=timeout)
    except subprocess.TimeoutExpired:
        return 'TIMEOUT', ''
    out = p.stdout
    if 'REPLAY-REPRODUCED' in out:
        return 'REPRODUCED', out
    if 'REPLAY-DIVERGED' in out:
        return 'DIVERGED', out
    if 'REPLAY-NOT-REPRODUCED' in out:
        return 'NOT-REPRODUCED', out
    return 'ERROR', out


# ----------------------------------------------------------------- known findings

MAX_REPORTED = 6   # violation classes written out per check run (the rest is counted)
MAX_MINIMISED = 3


def load_known():
    known, fixed = [], []
    p = os.path.join(VERIF, 'known_findings.txt')
    if not os.path.exists(p):
        return known, fixed
    for ln in open(p):
        ln = ln.strip()
        if ln.startswith('known:'):
            m = re.match(r'known:\s+property=(\S+)\s+rule=(\S+)\s+key=(\S+)\s+-\s+(.*)', ln)
            if m:
                known.append(dict(property=m.group(1), rule=m.group(2), key=m.group(3), text=m.group(4)))
        elif ln.startswith('fixed:'):
            fixed.append(ln)
    return known, fixed


def is_known(v, known):
    for k in known:
        if k['property'] == v['Property'] and k['rule'] == v['Rule'] and (k['key'] == '*' or k['key'] == v.get('Key', v['Rule'])):
            return k
    return None


# ----------------------------------------------------------------- evidence

def write_evidence(prop, ev):
    os.makedirs(os.path.join(EVIDENCE_DIR), exist_ok=True)
    p = os.path.join(EVIDENCE_DIR, prop + '.json')
    json.dump(ev, open(p + '.tmp', 'w'), indent=1, sort_keys=True)
    os.replace(p + '.tmp', p)


def summarize(lines):
    agg = dict(faults={}, probes={}, rules={}, net={}, steps=0, sim_ms=0, calls=0, tasks=0, unnamed=0, wall_ms=0.0, strategies={})
    sigs = set()
    nontrivial_sigs = set()
    for l in lines:
        for k, n in (l.get('Faults') or {}).items():
            agg['faults'][k] = agg['faults'].get(k, 0) + n
        for k, n in (l.get('Probes') or {}).items():
            agg['probes'][k] = agg['probes'].get(k, 0) + n
        for k, n in (l.get('Net') or {}).items():
            agg['net'][k] = agg['net'].get(k, 0) + n
        for k, r in (l.get('Rules') or {}).items():
            a = agg['rules'].setdefault(k, dict(applicable=0, held=0))
            a['applicable'] += r['Applicable']
            a['held'] += r['Held']
        agg['steps'] += l['Steps']
        agg['sim_ms'] += l['SimTimeMs']
        agg['calls'] += l['Calls']
        agg['tasks'] += l['Tasks']
        agg['unnamed'] += l['Unnamed']
        agg['wall_ms'] += l['WallMs']
        agg['strategies'][l.get('Strategy', '?')] = agg['strategies'].get(l.get('Strategy', '?'), 0) + 1
        sigs.add(l['SchedSig'])
        if l['Nontrivial']:
            nontrivial_sigs.add(l['SchedSig'])
    agg['distinct_schedules'] = len(sigs)
    agg['distinct_nontrivial'] = len(nontrivial_sigs)
    bases = [l for l in lines if l.get('EnumPoints') is not None and 'Enum' not in l and l.get('EnumPoints', 0) > 0]
    pts = [l for l in lines if l.get('Enum')]
    fired = {}
    for l in pts:
        kind = l['Enum'].rsplit(':', 1)[-1]
        fired[kind] = fired.get(kind, 0) + 1
    agg['enumeration'] = dict(base_programs=len(bases), points_planned=sum(l['EnumPoints'] for l in bases), points_run=len(pts),
                              bases_thinned=sum(1 for l in bases if l.get('EnumTruncated')), by_fault_kind=fired,
                              distinct_sites=len(set(l['Enum'].split('#')[0] for l in pts)))
    return agg


COMPONENTS_REAL = ['gorums runtime package (instrumented copy of the working tree: channel.go, server.go, quorumcall.go, async.go, correctable.go, multicast.go, unicast.go, rpc.go, mgr.go, node.go, config*.go, encoding.go)',
                   'stubs regenerated by the working-tree protoc-gen-gorums plugin (ZorumsService, all call types)',
                   'grpc-go v1.62.1 client and server incl. HTTP/2 framing and flow control', 'protobuf-go v1.33.0', 'context']
COMPONENTS_STUB = ['TCP/IP (simnet: scheduler-driven in-memory byte streams)', 'wall clock (testing/synctest fake clock)',
                   'goroutine scheduling inside gorums (simrt scheduler; sync, sync/atomic, math/rand replaced by models at build time)',
                   'user handlers and quorum functions (puppets following a per-call plan)', 'process boundaries (all processes share one address space; crash = Stop + connection resets)',
                   'grpc back-off jitter PRNG (constant midpoint)']


# ----------------------------------------------------------------- the check

def run_check(prop, tier):
    t0 = time.time()
    if prop not in profiles.PROFILES:
        die(2, 'unknown property ' + prop)
    pr = profiles.PROFILES[prop]
    seed = int(os.environ.get('VERIF_SEED', '1'))
    tier = os.environ.get('VERIF_TIER', tier) or 'quick'
    if tier not in ('quick', 'thorough'):
        tier = 'quick'
    if pr.get('custom'):
        return pr['custom'](prop, tier, seed)
    mode = pr.get('mode', 'L2')
    try:
        bdir, binary, th = build(mode)
    except BuildError as e:
        die(2, 'BUILD-ERROR\n' + str(e))
    budget = pr[tier]['budget_s']
    nruns = pr[tier]['runs']
    known, _ = load_known()
    all_lines, all_problems = [], []
    tmpdirs = []
    # fixed seed set + VERIF_SEED-derived set
    batches = [(1000003, nruns // 2), (seed * 7919 * 1000003 + 17, nruns - nruns // 2)]
    for profile in pr.get('profiles', [prop]):
        for (s0, n) in batches:
            if n <= 0:
                continue
            share = budget * n / max(1, nruns) / len(pr.get('profiles', [prop]))
            lines, problems, tmp = run_workers(binary, profile, tier, s0, n, max(5, int(share)), mode, sample_every=max(1, n // 64))
            for l in lines:
                l['_profile'] = profile
            all_lines += lines
            all_problems += problems
            tmpdirs.append(tmp)
    # site-triggered fault enumeration (DESIGN.md 4.6): every profiled (role, site, k) x fault kind of sampled base programs
    en = (pr.get('enum') or {}).get(tier)
    if en:
        lines, problems, tmp = run_workers(binary, prop, tier, 3000017 + seed * 104729, en['bases'], en['budget_s'], mode, test='TestEnum',
                                           extra_env={'SIM_ENUM': '1', 'SIM_ENUM_MAX': str(en['max_points']), 'SIM_ENUM_K': str(en.get('k', 3))})
        for l in lines:
            l['_profile'] = prop
        all_lines += lines
        all_problems += problems
        tmpdirs.append(tmp)
    rc = finish(prop, tier, seed, mode, pr, binary, th, all_lines, all_problems, known, t0)
    for t in tmpdirs:
        shutil.rmtree(t, ignore_errors=True)
    return rc


def finish(prop, tier, seed, mode, pr, binary, th, lines, problems, known, t0):
    internal = [l for l in lines if l.get('Internal')]
    if internal:
        print('INTERNAL-ERROR in %d runs, first:\n%s' % (len(internal), internal[0]['Internal'][:3000]))
    agg = summarize(lines)
    # violations of this property only; others are notes
    mine, others, known_seen = [], {}, {}
    for l in lines:
        for v in l.get('Violations') or []:
            if v['Property'] != prop:
                others[v['Property'] + '.' + v['Rule']] = others.get(v['Property'] + '.' + v['Rule'], 0) + 1
                continue
            k = is_known(v, known)
            if k:
                kk = (k['rule'], k['key'])
                if kk not in known_seen:
                    known_seen[kk] = dict(k=k, n=0, example=v['Detail'], seed=l['Seed'])
                known_seen[kk]['n'] += 1
            else:
                mine.append((l, v))
    for (rule, key), d in sorted(known_seen.items()):
        print('KNOWN-FINDING: property=%s rule=%s key=%s seen=%d first-seed=%d %s' % (prop, rule, key, d['n'], d['seed'], d['k']['text']))
    reported = []
    replay_stats = dict(replayed=0, reproduced=0, diverged=0)
    min_reports = []
    if mine:
        os.makedirs(os.path.join(REPLAY_DIR), exist_ok=True)
        seen_classes = set()
        for l, v in mine:
            cls = (v['Rule'], v.get('Key', ''))
            if cls in seen_classes:
                continue
            seen_classes.add(cls)
            if len(seen_classes) > MAX_REPORTED:
                continue
            rf = l.get('Replay')
            path = os.path.join(REPLAY_DIR, '%s-%s-%d.json' % (prop, v['Rule'], l['Seed']))
            if rf:
                rf.update(Property=prop, Rule=v['Rule'], Key=v.get('Key', ''), Detail=v['Detail'], TreeHash=th)
                json.dump(rf, open(path, 'w'), indent=1)
                if not mode.endswith('race'):
                    results = [replay(binary, path)[0] for _ in range(2)]
                    replay_stats['replayed'] += 2
                    replay_stats['reproduced'] += results.count('REPRODUCED')
                    replay_stats['diverged'] += results.count('DIVERGED')
                    rf['Reproducible'] = results.count('REPRODUCED') == 2
                    json.dump(rf, open(path, 'w'), indent=1)
                    if rf['Reproducible'] and pr.get('minimise', True) and len(min_reports) < MAX_MINIMISED:
                        try:
                            import minimise
                            mrep = minimise.minimise(binary, path, budget_s=int(os.environ.get('VERIF_MIN_BUDGET_S', '45')), env=goenv())
                            min_reports.append(dict(seed=l['Seed'], rule=v['Rule'], **mrep))
                            if mrep.get('ok'):
                                print('  minimised: program size %s -> %s, schedule %s -> %s choices (%d candidate runs)' % (
                                    mrep['program_size'][0], mrep['program_size'][1], mrep['trace_len'][0], mrep['trace_len'][1], mrep['runs']))
                        except Exception as e:
                            print('minimiser failed: %r' % (e,))
            print('VIOLATION property=%s replay=%s' % (prop, path))
            print('  rule=%s seed=%d: %s' % (v['Rule'], l['Seed'], v['Detail']))
            reported.append(dict(rule=v['Rule'], key=v.get('Key', ''), seed=l['Seed'], detail=v['Detail'], replay=path))
    if mine and len(seen_classes) > MAX_REPORTED:
        print('  (%d further violation classes of %s not written out: %s)' % (len(seen_classes) - MAX_REPORTED, prop, ', '.join('%s[%s]' % c for c in sorted(seen_classes)[:12])))
    wall = time.time() - t0
    samples = []
    for l in lines:
        if l.get('Replay') and len(samples) < 4:
            r = l['Replay']
            samples.append(dict(seed=l['Seed'], config=r['Config'], program=r['Program'], first_choices=r['Trace'][:40], steps=l['Steps'],
                                outcome=dict(violations=[v['Property'] + '.' + v['Rule'] for v in l.get('Violations') or []], calls=l['Calls'], sim_time_ms=l['SimTimeMs'])))
    n = len(lines)
    ev = dict(
        property_id=prop, tier=tier, seed=seed, level=pr.get('level', 'exploration'), wall_s=round(wall, 2), violations=len(reported),
        assumptions=pr.get('assumptions', []) + ['Go runtime, testing/synctest, the simrt mutex/RWMutex/Once models and the source rewriter preserve the semantics of the code under test (DESIGN.md 4.3)',
                                               'goroutine scheduling inside grpc-go is not controlled; it is measured to be confluent at event-log level (selftest)'],
        coverage=dict(
            evaluations=n, distinct_nontrivial=agg['distinct_nontrivial'],
            rule='one evaluation = one simulated run (seed -> swarm configuration, program, fault plan, schedule). distinct = distinct schedule signature '
                 '(hash of the main-phase sequence of (task role, scheduling site) / action kinds); non-trivial = at least two switches between different library task roles happened, i.e. library goroutines were really interleaved. ' + pr.get('rule_extra', ''),
            samples=samples or [dict(note='no sample captured')],
            exhaustive=False,
            runs_per_hour=int(n / wall * 3600) if wall > 0 else 0,
            seeds=dict(fixed_base=1000003, derived_from_VERIF_SEED=seed),
            sim_time_s_total=round(agg['sim_ms'] / 1000.0, 1), steps_total=agg['steps'], calls_total=agg['calls'], tasks_total=agg['tasks'],
            unnamed_foreign_tasks=agg['unnamed'], distinct_schedules=agg['distinct_schedules'], strategies=agg['strategies'],
            faults_fired=agg['faults'], network=agg['net'], probes=agg['probes'], rules=agg['rules'], enumeration=agg['enumeration'],
            known_findings_seen={'%s/%s' % k: d['n'] for k, d in known_seen.items()},
            other_property_notes=others, replay=replay_stats, minimisation=min_reports, problems=problems[:5], mode=mode, tree_hash=th,
            components_real=COMPONENTS_REAL, components_stub=COMPONENTS_STUB,
        ),
    )
    if pr.get('evidence_hook'):
        pr['evidence_hook'](ev, lines)
    if n == 0:
        print('NO-RUNS: no simulated run completed')
        for p in problems:
            print(p)
        return 2
    write_evidence(prop, ev)
    print('%s %s: %d runs, %d distinct non-trivial schedules, %d steps, %.0f s simulated, %.1f s wall, faults=%s' % (
        prop, tier, n, agg['distinct_nontrivial'], agg['steps'], agg['sim_ms'] / 1000.0, wall, agg['faults']))
    never = [k for k, r in agg['rules'].items() if k.startswith(prop + '.') and r['applicable'] == 0]
    if never:
        print('rules never applicable: ' + ', '.join(never))
    if reported:
        return 1
    # a measurement that never saw anything cannot certify "nothing left": fail loudly (exit 2)
    for name in pr.get('required_probes', []):
        if agg['probes'].get(name, 0) == 0:
            problems.append('reach probe %r was never hit in %d runs: the measurement of this check is vacuous on this tree (e.g. the state it reads by reflection is no longer reachable)' % (name, n))
    if problems or internal:
        for p in problems:
            print('PROBLEM ' + p)
        return 2
    return 0


# ----------------------------------------------------------------- C15: race detector runs (L1)

RACE_SPLIT = re.compile(r'^==================$', re.M)
FRAME = re.compile(r'^  (\S+)\(\)$', re.M)


def parse_races(text):
    """Returns a list of (key, report) for race reports that involve library code."""
    out, harness = [], 0
    for blk in RACE_SPLIT.split(text):
        if 'WARNING: DATA RACE' not in blk:
            continue
        parts = re.split(r'\n\n', blk.strip())
        stacks = [p for p in parts if re.match(r'^(WARNING: DATA RACE\n)?(Read|Write|Previous read|Previous write|Atomic|Previous atomic)', p.strip())]
        tops = []
        for st in stacks[:2]:
            frames = FRAME.findall(st)
            lib = [f for f in frames if f.startswith('github.com/relab/gorums.') or f.startswith('gorumsim/zsvc.')]
            tops.append(lib[0] if lib else None)
        if not any(tops):
            harness += 1
            if os.environ.get('VERIF_DEBUG_RACE'):
                print(blk[:3000])
            continue
        names = sorted((t or 'non-library').replace('github.com/relab/gorums.', '').replace('gorumsim/zsvc.', 'generated:') for t in tops)
        out.append(('~'.join(names), blk.strip()))
    return out, harness


def run_race_seed(binary, profile, tier, seed, tmp):
    env = goenv()
    outf = os.path.join(tmp, 'r%d.jsonl' % seed)
    env.update(SIM_PROFILE=profile, SIM_TIER=tier, SIM_SEED0=str(seed), SIM_COUNT='1', SIM_MODE='L1race', SIM_SAMPLE_EVERY='1',
               GORACE='halt_on_error=0', GOMAXPROCS='4', SIM_OUT=outf, SIM_RUN_WATCHDOG_S='45',
               SIM_STALL_SITES=os.path.join(os.path.dirname(binary), 'inst.L1race', 'stallsites.txt'))
    try:
        p = subprocess.run([binary, '-test.run', '^TestSim$', '-test.timeout', '10m', '-test.cpu', '4'], env=env, stdout=subprocess.PIPE, stderr=subprocess.STDOUT, text=True, timeout=180, cwd=tmp)
    except subprocess.TimeoutExpired:
        return seed, None, [], 0, 'timeout'
    line = None
    if os.path.exists(outf):
        for ln in open(outf):
            try:
                line = json.loads(ln)
            except Exception:
                pass
        os.remove(outf)
    races, harness = parse_races(p.stdout)
    problem = None
    if line is None:
        problem = 'no result line; tail: ' + p.stdout[-1500:]
    return seed, line, races, harness, problem


def run_race_check(prop, tier, seed):
    from concurrent.futures import ThreadPoolExecutor
    t0 = time.time()
    pr = profiles.PROFILES[prop]
    try:
        bdir, binary, th = build('L1race')
    except BuildError as e:
        die(2, 'BUILD-ERROR\n' + str(e))
    nruns = pr[tier]['runs']
    budget = pr[tier]['budget_s']
    seeds = [1000003 + i for i in range(nruns // 2)] + [seed * 7919 * 1000003 + 17 + i for i in range(nruns - nruns // 2)]
    tmp = tempfile.mkdtemp(prefix='race-', dir=bdir)
    lines, found, problems, harness_total = [], {}, [], 0
    deadline = time.time() + budget
    def job(s):
        if time.time() > deadline:
            return None
        return run_race_seed(binary, prop, tier, s, tmp)
    with ThreadPoolExecutor(max_workers=max(1, WORKERS // 2)) as ex:
        for r in ex.map(job, seeds):
            if r is None:
                continue
            s, line, races, harness, problem = r
            harness_total += harness
            if problem:
                problems.append('seed %d: %s' % (s, problem))
            if line:
                lines.append(line)
            for key, report in races:
                found.setdefault(key, []).append((s, report, line))
    known, _ = load_known()
    reported, known_seen = [], {}
    os.makedirs(os.path.join(REPLAY_DIR), exist_ok=True)
    for key, xs in sorted(found.items()):
        v = dict(Property=prop, Rule='data-race', Key=key)
        k = is_known(v, known)
        if k:
            known_seen[key] = len(xs)
            print('KNOWN-FINDING: property=%s rule=data-race key=%s seen=%d first-seed=%d %s' % (prop, key, len(xs), xs[0][0], k['text']))
            continue
        s0, report, line = xs[0]
        path = os.path.join(REPLAY_DIR, '%s-data-race-%d.json' % (prop, s0))
        rf = (line or {}).get('Replay') or dict(Seed=s0, Profile=prop, Tier=tier)
        rf.update(Property=prop, Rule='data-race', Key=key, Detail=report[:6000], Mode='L1race', TreeHash=th, Seed=s0, Profile=prop, Tier=tier)
        json.dump(rf, open(path, 'w'), indent=1)
        print('VIOLATION property=%s replay=%s' % (prop, path))
        print('  rule=data-race key=%s seeds=%s' % (key, [x[0] for x in xs[:6]]))
        print('\n'.join('    ' + l for l in report.splitlines()[:24]))
        reported.append(dict(rule='data-race', key=key, seed=s0, replay=path))
    agg = summarize(lines)
    # L1 mode has no scheduling points inside the library, so "non-trivial" is judged on the program:
    # at least two client threads that issue calls (or build configurations) run concurrently
    nt = set()
    for l in lines:
        prog = (l.get('Replay') or {}).get('Program') or {}
        busy = sum(1 for th in prog.get('Threads') or [] if any(op.get('Kind') in ('call', 'newcfg', 'cfgstorm', 'inspect-loop', 'close') for op in th.get('Ops') or []))
        if busy >= 2:
            nt.add(l['SchedSig'])
    agg['distinct_nontrivial'] = len(nt)
    wall = time.time() - t0
    samples = []
    for l in lines[:3]:
        r = l.get('Replay') or {}
        samples.append(dict(seed=l['Seed'], config=r.get('Config'), program=r.get('Program'), steps=l['Steps'], calls=l['Calls']))
    ev = dict(property_id=prop, tier=tier, seed=seed, level='exploration', wall_s=round(wall, 2), violations=len(reported),
              assumptions=['the Go race detector is sound for the accesses that execute (happens-before based); the dsync redirection (TryLock polling) creates no extra happens-before edges',
                           'harness tasks are not scheduled one at a time in this mode, so harness synchronisation does not order library accesses',
                           'stall injection (T6): dsync.Stall sleeps on the fake clock and shares no synchronised state between goroutines (its counter and the harness-lock flag live in //go:norace functions), so a stall adds no happens-before edge; a reported pair of accesses is unordered in the real program too'],
              coverage=dict(evaluations=len(lines), distinct_nontrivial=agg['distinct_nontrivial'],
                            rule='one evaluation = one simulated run of the widest swarm profile in its own OS process under -race (L1 mode: simulated network, clock, puppets, faults; goroutine interleaving left to the Go runtime, 4 Ps). distinct = distinct signature of the sequence of driver actions (network deliveries, connects, faults, cancellations, ticks); non-trivial = at least two client threads of the program issue calls / build configurations / close concurrently. The library has no scheduling points in this mode, but per run a seeded stall plan (none / spray / targeted, DESIGN.md 4.8) holds library goroutines up on the fake clock before chosen statements; faults_fired.stall counts the stalls executed (approximate: unsynchronised counter), reset-after-stall / restart-after-stall the faults placed right after a stall.',
                            samples=samples or [dict(note='none')], exhaustive=False, runs_per_hour=int(len(lines) / wall * 3600) if wall > 0 else 0,
                            steps_total=agg['steps'], calls_total=agg['calls'], sim_time_s_total=round(agg['sim_ms'] / 1000.0, 1), faults_fired=agg['faults'], network=agg['net'], probes=agg['probes'],
                            race_reports_with_library_frames={k: len(v) for k, v in found.items()}, harness_only_race_reports=harness_total,
                            known_findings_seen=known_seen, problems=problems[:5], mode='L1race', tree_hash=th,
                            components_real=COMPONENTS_REAL, components_stub=[c for c in COMPONENTS_STUB if 'goroutine scheduling inside gorums' not in c] + ['sync.Mutex/RWMutex/Once waits of gorums (dsync: real primitives, TryLock polling on the fake clock)']))
    shutil.rmtree(tmp, ignore_errors=True)
    if not lines:
        print('NO-RUNS')
        for p_ in problems[:5]:
            print(p_)
        return 2
    write_evidence(prop, ev)
    print('%s %s: %d race-detector runs, %d library race classes, %d harness-only reports, %.1f s wall' % (prop, tier, len(lines), len(found), harness_total, wall))
    if reported:
        return 1
    if harness_total:
        print('PROBLEM: %d race reports without any library frame (harness race?)' % harness_total)
    if len(problems) > len(seeds) // 10:
        for p_ in problems[:5]:
            print('PROBLEM ' + p_[:800])
        return 2
    return 0


def replay_race(path):
    rf = json.load(open(path))
    bdir, binary, th = build('L1race')
    tmp = tempfile.mkdtemp(prefix='race-', dir=bdir)
    seen = False
    for i in range(6):
        s, line, races, harness, problem = run_race_seed(binary, rf['Profile'], rf.get('Tier', 'quick'), rf['Seed'], tmp)
        for key, report in races:
            if key == rf['Key']:
                seen = True
                print(report)
        if seen:
            break
    shutil.rmtree(tmp, ignore_errors=True)
    print('REPLAY-REPRODUCED property=%s rule=data-race key=%s' % (rf['Property'], rf['Key']) if seen else 'REPLAY-NOT-REPRODUCED (a race report depends on the Go runtime schedule; 6 attempts)')
    return 1 if seen else 0


# ----------------------------------------------------------------- C16: generator determinism

def run_gen_check(prop, tier, seed):
    t0 = time.time()
    pr = profiles.PROFILES[prop]
    th, _ = tree_hash()
    bdir = os.path.join(BUILD_ROOT, th)
    os.makedirs(bdir, exist_ok=True)
    env = goenv()
    g = os.path.join(bdir, 'gen16')
    binary = os.path.join(g, 'gen16.bin')
    try:
        if not os.path.exists(binary):
            if os.path.exists(g):
                shutil.rmtree(g)
            shutil.copytree(os.path.join(VERIF, 'gen16'), g)
            gm = open(os.path.join(g, 'go.mod')).read()
            gm = re.sub(r'replace github.com/relab/gorums => .*', 'replace github.com/relab/gorums => ' + REPO, gm)
            open(os.path.join(g, 'go.mod'), 'w').write(gm)
            shutil.copy(os.path.join(REPO, 'go.sum'), os.path.join(g, 'go.sum'))
            # the instrumenter, built with the repository's own toolchain (its export data must be readable)
            idir = os.path.join(g, 'instr')
            os.makedirs(idir)
            shutil.copy(os.path.join(SIM, 'cmd/instrument/main.go'), idir)
            open(os.path.join(idir, 'go.mod'), 'w').write('module instr\n\ngo 1.22\n')
            rc, out = sh([GO_OLD, 'build', '-o', os.path.join(g, 'instrument'), '.'], cwd=idir, env=env)
            if rc != 0:
                raise BuildError('building the instrumenter failed:\n' + out)
            os.makedirs(os.path.join(g, 'inst'))
            rc, out = sh([os.path.join(g, 'instrument'), '-src', os.path.join(REPO, 'cmd/protoc-gen-gorums/gengorums'), '-out', os.path.join(g, 'inst'),
                          '-overlay', os.path.join(g, 'overlay.json'), '-go', GO_OLD, '-mode', 'MAPS', '-rt', 'gen16/maporder', '-skip-pb=false'], cwd=g, env=env)
            if rc != 0:
                raise BuildError('instrumenting the generator failed:\n' + out)
            rc, out = sh([GO_OLD, 'build', '-overlay', os.path.join(g, 'overlay.json'), '-o', binary, './cmd/gen16'], cwd=g, env=env)
            if rc != 0:
                raise BuildError('compiling the generator harness failed:\n' + out)
    except BuildError as e:
        die(2, 'BUILD-ERROR\n' + str(e))
    nseeds = pr[tier]['runs']
    variants = pr[tier].get('variants', 6)
    emit = os.path.join(g, 'out')
    shutil.rmtree(emit, ignore_errors=True)
    p = subprocess.run([binary, '-seed0', str(seed), '-seeds', str(nseeds), '-variants', str(variants), '-emit', emit], stdout=subprocess.PIPE, stderr=subprocess.PIPE, text=True, env=env, cwd=g, timeout=3600)
    try:
        res = json.loads(p.stdout.strip().splitlines()[-1])
    except Exception:
        die(2, 'generator harness failed (rc=%d):\n%s\n%s' % (p.returncode, p.stdout[-2000:], p.stderr[-2000:]))
    known, _ = load_known()
    reported, known_seen = [], {}
    os.makedirs(os.path.join(REPLAY_DIR), exist_ok=True)
    viols = list(res.get('violations') or [])
    # by-product: what the plugin emits for the (variant) zorums inputs must compile
    compiled = 0
    pb = open(os.path.join(REPO, 'cmd/protoc-gen-gorums/dev/zorums.pb.go')).read()
    pb = re.sub(r'(?m)^package \w+$', 'package x', pb)
    dirs = sorted(glob.glob(os.path.join(emit, 'v*')))
    for d in dirs:
        open(os.path.join(d, 'zorums.pb.go'), 'w').write(pb)
    compiled = len(dirs)
    # all variants in one build; only if that fails, one build per variant to say which
    rc_all, _ = sh([GO_OLD, 'build', './' + os.path.relpath(emit, g) + '/...'], cwd=g, env=env) if dirs else (0, '')
    for d in (dirs if rc_all != 0 else []):
        rc, out = sh([GO_OLD, 'build', './' + os.path.relpath(d, g)], cwd=g, env=env)
        if rc != 0:
            inp = open(os.path.join(d, 'INPUT.txt')).read()
            viols.append(dict(Rule='emits-code-that-does-not-compile', Key='zorums-single-method' if '-only:' in inp else 'zorums-variant', Input=inp, Seed=0, Detail=out[:1500]))
    for v in viols:
        vv = dict(Property=prop, Rule=v['Rule'], Key=v['Key'])
        k = is_known(vv, known)
        if k:
            known_seen[v['Rule'] + '/' + v['Key']] = known_seen.get(v['Rule'] + '/' + v['Key'], 0) + 1
            print('KNOWN-FINDING: property=%s rule=%s key=%s %s' % (prop, v['Rule'], v['Key'], k['text']))
            continue
        path = os.path.join(REPLAY_DIR, '%s-%s-%d-%s.json' % (prop, v['Rule'], v['Seed'], hashlib.sha256(v['Input'].encode()).hexdigest()[:8]))
        json.dump(dict(Property=prop, Rule=v['Rule'], Key=v['Key'], Detail=v['Detail'], Mode='gen16', Input=v['Input'], Seed=v['Seed'], TreeHash=th), open(path, 'w'), indent=1)
        print('VIOLATION property=%s replay=%s' % (prop, path))
        print('  rule=%s key=%s input=%s seed=%s: %s' % (v['Rule'], v['Key'], v['Input'][:80], v['Seed'], v['Detail'][:600]))
        reported.append(v)
    wall = time.time() - t0
    ev = dict(property_id=prop, tier=tier, seed=seed, level='exploration', wall_s=round(wall, 2), violations=len(reported),
              assumptions=['the only source of nondeterminism of the (single-threaded, I/O-free) generator is Go map iteration order; it is put behind a seam by rewriting every range over a map in package gengorums',
                           'only the determinism clause and the compile by-product are claimed (DESIGN.md 5/C16)'],
              coverage=dict(evaluations=res['evaluations'], distinct_nontrivial=res['distinct_nontrivial'],
                            rule='one evaluation = one in-process generation of one plugin request under one seed = one assignment of iteration orders to all map ranges of the generator; distinct non-trivial = distinct order signatures in which at least one map range was actually permuted. The response (file names, order, contents) is compared byte for byte with the canonical-order response.',
                            samples=res.get('samples') or [dict(inputs=res['inputs'])], exhaustive=False, inputs=res['inputs'], map_ranges_executed=res['map_ranges_total'],
                            variant_outputs_compiled=compiled, known_findings_seen=known_seen, runs_per_hour=int(res['evaluations'] / wall * 3600) if wall > 0 else 0, tree_hash=th,
                            components_real=['cmd/protoc-gen-gorums/gengorums (all templates, instrumented copy: map ranges only)', 'google.golang.org/protobuf/compiler/protogen'],
                            components_stub=['protoc (requests are built from the descriptors embedded in the committed *.pb.go files and descriptor-level variants)', 'Go map iteration order (maporder seam)']))
    write_evidence(prop, ev)
    print('%s %s: %d generations over %d inputs, %d distinct non-trivial order assignments, %d variant outputs compiled, %.1f s wall' % (prop, tier, res['evaluations'], res['inputs'], res['distinct_nontrivial'], compiled, wall))
    return 1 if reported else 0


# ----------------------------------------------------------------- selftest

def selftest(nseeds, profile='C01'):
    """Determinism: every seed is executed in fresh processes at several GOMAXPROCS and
    worker counts; the event-log hashes must agree."""
    try:
        bdir, binary, th = build('L2')
    except BuildError as e:
        die(2, 'BUILD-ERROR\n' + str(e))
    ref = {}
    div = []
    total = 0
    for (gmp, workers) in [('1', 1), ('4', 4), ('16', 16), ('2', 16)]:
        lines, problems, tmp = run_workers(binary, profile, 'quick', 5000, nseeds, 600, 'L2', workers=workers, extra_env={'SIM_GOMAXPROCS': gmp, 'GOMAXPROCS': gmp})
        shutil.rmtree(tmp, ignore_errors=True)
        for l in lines:
            total += 1
            h = (l['LogHash'], l['Steps'])
            if l['Seed'] in ref and ref[l['Seed']] != h:
                div.append((l['Seed'], ref[l['Seed']], h, gmp, workers))
            ref.setdefault(l['Seed'], h)
        for p in problems:
            print('PROBLEM', p)
    print('selftest profile=%s seeds=%d executions=%d divergences=%d' % (profile, len(ref), total, len(div)))
    for d in div[:20]:
        print('  DIVERGED seed=%d ref=%s got=%s (GOMAXPROCS=%s workers=%d)' % d)
    SELFTEST_RESULTS[profile] = dict(seeds=len(ref), executions=total, divergences=len(div), diverged_seeds=sorted(set(d[0] for d in div))[:20], tree_hash=th,
                                     configurations='GOMAXPROCS/workers: 1/1, 4/4, 16/16, 2/16; each execution in a fresh OS process; compared: hash of the full event log and step count')
    return 0 if not div else 2


SELFTEST_RESULTS = {}


def sweep(profile, n, seed0=1, mode='L2'):
    try:
        bdir, binary, th = build(mode)
    except BuildError as e:
        die(2, 'BUILD-ERROR\n' + str(e))
    lines, problems, tmp = run_workers(binary, profile, os.environ.get('VERIF_TIER', 'quick'), seed0, n, 3600, mode, sample_every=1)
    agg = summarize(lines)
    vio = {}
    for l in lines:
        for v in l.get('Violations') or []:
            k = '%s.%s[%s]' % (v['Property'], v['Rule'], v.get('Key', ''))
            vio.setdefault(k, []).append((l['Seed'], v['Detail']))
        if l.get('Internal'):
            vio.setdefault('INTERNAL', []).append((l['Seed'], l['Internal'][:500]))
        if l.get('Deadlock'):
            vio.setdefault('DEADLOCK', []).append((l['Seed'], l['Deadlock'][:200]))
    print(json.dumps(dict(runs=len(lines), distinct_nontrivial=agg['distinct_nontrivial'], steps=agg['steps'], faults=agg['faults'], probes=agg['probes'],
                          net=agg['net'], wall_ms=int(agg['wall_ms']), unnamed=agg['unnamed'], sim_s=agg['sim_ms'] // 1000), indent=1))
    for k, r in sorted(agg['rules'].items()):
        print('  rule %-40s applicable=%-7d held=%d' % (k, r['applicable'], r['held']))
    for k, xs in sorted(vio.items()):
        print('VIO %s x%d seeds=%s' % (k, len(xs), [s for s, _ in xs[:8]]))
        print('     ' + xs[0][1][:600])
    for p in problems:
        print('PROBLEM', p[:2000])
    # keep replays of the first violation of each class for inspection
    outdir = os.path.join(bdir, 'sweep-replays')
    os.makedirs(outdir, exist_ok=True)
    seen = set()
    for l in lines:
        for v in l.get('Violations') or []:
            k = '%s.%s.%s' % (v['Property'], v['Rule'], v.get('Key', ''))
            if k in seen or not l.get('Replay'):
                continue
            seen.add(k)
            rf = l['Replay']
            rf.update(Property=v['Property'], Rule=v['Rule'], Key=v.get('Key', ''), Detail=v['Detail'])
            json.dump(dict(rf), open(os.path.join(outdir, '%s-%d.json' % (k.replace('/', '_'), l['Seed'])), 'w'))
    print('replays in', outdir)
    shutil.rmtree(tmp, ignore_errors=True)
    return 0


def main(argv):
    if not argv:
        print(__doc__)
        return 2
    cmd = argv[0]
    if cmd == 'build':
        try:
            for mode in (argv[1:] or ['L2']):
                build(mode)
        except BuildError as e:
            die(2, 'BUILD-ERROR\n' + str(e))
        return 0
    if cmd == 'replay':
        mode = 'L2'
        try:
            rf = json.load(open(argv[1]))
            mode = rf.get('Mode') or 'L2'
            if mode == 'L1race':
                return replay_race(argv[1])
            if mode == 'gen16':
                th, _ = tree_hash()
                g = os.path.join(BUILD_ROOT, th, 'gen16')
                if not os.path.exists(os.path.join(g, 'gen16.bin')):
                    die(2, 'run ./check C16 quick first (builds the generator harness for this tree)')
                if rf['Rule'] != 'output-depends-on-map-order':
                    print(rf['Detail'])
                    return 1
                p = subprocess.run([os.path.join(g, 'gen16.bin'), '-input', rf['Input'], '-seed', str(rf['Seed']), '-seeds', '1', '-variants', '0'], cwd=g, env=goenv(), stdout=subprocess.PIPE, text=True)
                print(p.stdout[-3000:])
                print('REPLAY-REPRODUCED' if p.returncode == 1 else 'REPLAY-NOT-REPRODUCED')
                return 1 if p.returncode == 1 else 0
            bdir, binary, th = build(mode)
        except BuildError as e:
            die(2, 'BUILD-ERROR\n' + str(e))
        st, out = replay(binary, argv[1], verbose='-v' in argv)
        print(out)
        return {'REPRODUCED': 1, 'NOT-REPRODUCED': 0}.get(st, 2)
    if cmd == 'selftest':
        n = int(argv[1]) if len(argv) > 1 else 100
        rc = 0
        for prof in (argv[2:] or ['C01', 'C09']):
            rc |= selftest(n, prof)
        json.dump(dict(when=time.strftime('%Y-%m-%dT%H:%M:%SZ', time.gmtime()), results=SELFTEST_RESULTS), open(os.path.join(VERIF, 'selftest.json'), 'w'), indent=1)
        return rc
    if cmd == 'sweep':
        return sweep(argv[1], int(argv[2]), int(argv[3]) if len(argv) > 3 else 1, argv[4] if len(argv) > 4 else 'L2')
    tier = argv[1] if len(argv) > 1 else 'quick'
    return run_check(cmd, tier)
