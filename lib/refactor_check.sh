#!/bin/bash
# dev helper: apply a behaviour-preserving change to /repo, run every quick check (none may alarm), restore /repo
# usage: refactor_check.sh <patch> [props...]
patch=$1; shift
cd /repo || exit 2
if ! git diff --quiet; then echo "REPO DIRTY"; exit 2; fi
git apply --check "$patch" || { echo "PATCH DOES NOT APPLY"; exit 2; }
git apply "$patch"
trap 'git -C /repo checkout -- . ; git -C /repo clean -fdq; cd /verif; git checkout -- evidence; rm -f replays/*.json' EXIT
cd /verif
for id in ${@:-$(jq -r ".checks[].property_id" MANIFEST.json)}; do
  s=$(date +%s)
  out=$(./check $id quick 2>&1); rc=$?
  echo "$id rc=$rc $(( $(date +%s)-s ))s"
  echo "$out" | grep '^VIOLATION\|^  rule=\|BUILD-ERROR\|PROBLEM\|INTERNAL' | cut -c1-500
  if [ $rc -eq 2 ]; then echo "$out" | tail -30 | cut -c1-300; fi
done
