#!/usr/bin/env python3
"""dev helper: regenerates the block between RESULTS-BEGIN / RESULTS-END in DESIGN.md from
seeded/*/meta.json, selftest.json and refactorings/results.json."""
import glob, json, os, re
V = '/verif'
out = []
st = json.load(open(V + '/selftest.json'))
out.append('**Determinism self-test** (%s, tree %s): ' % (st['when'], next(iter(st['results'].values()))['tree_hash']))
tot = sum(r['executions'] for r in st['results'].values()); div = sum(r['divergences'] for r in st['results'].values())
out.append('%d profiles, %d seeds each, %d executions in fresh processes at GOMAXPROCS/workers 1/1, 4/4, 16/16, 2/16; **%d divergences** (compared: hash of the full event log and step count). ' % (len(st['results']), next(iter(st['results'].values()))['seeds'], tot, div))
out.append('The first run of this self-test over all profiles (before the last two fixes) showed 30 % divergent seeds in five profiles: the generators drew from the PRNG while ranging over the per-server plan *map* (so "one seed" was not one program - replay files were unaffected, they store the program), and a few seeds in which a timer of the system expired at exactly the instant the driver woke up (fixed by `sleepPast` and odd offsets on all configured durations). Both were harness defects; no verdict depended on them, but they are the reason the self-test exists.')
out.append('')
_metas = [json.load(open(d + '/meta.json')) for d in sorted(glob.glob(V + '/seeded/C*'))]
_caught = sum(1 for m in _metas if (m.get('detection', {}).get('%s quick' % m['property']) or {}).get('exit') == 1)
_conf = sum(1 for m in _metas if m.get('confirmed', {}).get('ok'))
out.append('**Seeded changes** (%d kept, %d confirmed against the HEAD they are recorded for, %d caught by the *quick* check of their property, %d missed by it - see the rows marked MISSED and section 8.2; 5 retired, see `seeded/_retired`):' % (len(_metas), _conf, _caught, len(_metas) - _caught))
out.append('')
out.append('| id | change (abridged) | rules that fired in the quick check | s |')
out.append('|---|---|---|---|')
for d in sorted(glob.glob(V + '/seeded/C*')):
    m = json.load(open(d + '/meta.json')); i = os.path.basename(d)
    det = m.get('detection', {}); own = '%s quick' % m['property']; v = det.get(own) or {}
    rules = sorted(set(r.split()[0][5:] for r in v.get('first', []) if isinstance(r, str) and r.startswith('rule=')))
    others = sorted(k.split()[0] for k in det if k != own and det[k]['exit'] == 1)
    s = m['summary']; s = s if len(s) <= 170 else s[:167] + '...'
    caught = 'caught' if v.get('exit') == 1 else 'MISSED by quick'
    if v.get('exit') != 1:
        ds = (m.get('detection_scratch') or {}).get('%s thorough' % m['property'])
        if ds:
            caught += ' (thorough, scratch worktree: %s, %d s)' % ('caught' if ds.get('exit') == 1 else 'missed', ds.get('seconds', 0))
            rules = sorted(set(r.split()[0][5:] for r in ds.get('first', []) if isinstance(r, str) and r.startswith('rule=')))
    out.append('| %s | %s | %s: %s%s | %s |' % (i, s.replace('|', '/'), caught, ', '.join(rules), (' (also ' + ', '.join(others) + ')') if others else '', v.get('seconds', '?')))
out.append('')
rp = V + '/refactorings/results.json'
if os.path.exists(rp):
    r = json.load(open(rp))
    out.append('**Behaviour-preserving refactorings** (`/verif/refactorings/R*`: written by fresh sub-agents asked for a substantial *structural* change of one area that keeps every observable behaviour; suite and `-race` suite pass): every quick check was run against each of them and must stay silent.')
    out.append('')
    out.append('| id | area / what was restructured | result of all 16 quick checks |')
    out.append('|---|---|---|')
    for k in sorted(r):
        out.append('| %s | %s | %s |' % (k, r[k]['what'], r[k]['result']))
    out.append('')
out.append('**Last runs of the checks on the unchanged tree** (from `evidence/*.json` as committed):')
out.append('')
out.append('| property | tier | runs | distinct non-trivial | runs/hour | simulated time | enumerated fault points | violations |')
out.append('|---|---|---|---|---|---|---|---|')
for f in sorted(glob.glob(V + '/evidence/C*.json')):
    e = json.load(open(f)); c = e['coverage']
    en = (c.get('enumeration') or {}).get('points_run', 0)
    out.append('| %s | %s | %s | %s | %s | %s | %s | %s |' % (e['property_id'], e.get('tier', '?'), c['evaluations'], c['distinct_nontrivial'], c.get('runs_per_hour', '-'),
               ('%.0f h' % (c['sim_time_s_total'] / 3600.0)) if c.get('sim_time_s_total') else '-', en or '-', e.get('violations', 0)))
out.append('')
p = V + '/DESIGN.md'; s = open(p).read()
a = s.index('<!-- RESULTS-BEGIN'); b = s.index('<!-- RESULTS-END -->')
a2 = s.index('-->', a) + 3
s = s[:a2] + '\n' + '\n'.join(out) + '\n' + s[b:]
open(p, 'w').write(s)
print('ok', len(out), 'lines')
