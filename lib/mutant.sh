#!/bin/bash
# usage: mutant.sh <patch> <prop> [<prop> ...]   - applies the patch to /repo, runs the quick checks, restores /repo
patch=$1; shift
cd /repo || exit 2
if ! git diff --quiet; then echo "REPO DIRTY"; exit 2; fi
if ! git apply --check "$patch" 2>/dev/null; then echo "PATCH DOES NOT APPLY: $patch"; exit 2; fi
git apply "$patch"
trap 'git -C /repo checkout -- . ; git -C /repo clean -fdq' EXIT
cd /verif
for p in "$@"; do
  out=$(timeout 1500 ./check $p quick 2>&1); rc=$?
  echo "== $p rc=$rc"
  echo "$out" | grep -E "^VIOLATION|^  rule=|BUILD-ERROR|PROBLEM|INTERNAL" | cut -c1-400 | head -6
  echo "$out" | tail -1 | cut -c1-200
done
